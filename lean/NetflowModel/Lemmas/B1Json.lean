/-
  Lemmas/B1Json.lean — helper lemmas for C16 (JSON serialisation model `toJ`, Json.lean).

  1. leaf printers are injective: `strJ` (via `ByteArray.toList = data.toList`), `decDigits`/`toString` on
     `Nat`, `ip4Text` (on `n < 2^32`), `macText` (all inputs), `bytesJ`;
  2. name tables: `injTblB` (kernel-evaluable Bool: keys pairwise distinct, names pairwise distinct, checked
     through forced numeric fingerprints and 32 buckets) implies `NameInj` (`nameOf` injective on the key set);
  3. `ip6Text` (IPv4-mapped form, first-longest zero-run compression) is injective on `n < 2^128`
     (`ip6Text_inj`): hex groups, splitting at colons, loop invariant of `longestZeroRun`;
  4. per-layer injectivity of `fieldValueJ`, `recJ`, `layoutJ`, template fields, `v9BodyJ`, `ipBodyJ`,
     `errKindJ`, `toJ` (`toJ_inj`) modulo `jnorm = forgetWidths ∘ erasePads`;
  5. records' entries are in template order (`v9ParseRec_shape`, `ipParseRec_shape`, `parseBytes_keys`);
  6. every parse result satisfies `pktWf` when the name tables cover the crate's enum conversions
     (`TablesCover`, `parseBytes_wf`).
-/
import NetflowModel.Json
import NetflowModel.Lemmas.A2State
import NetflowModel.Generated
open Netflow
namespace Netflow.B1

theorem byteArray_toList_loop (bs : ByteArray) : ∀ (k i : Nat) (r : List UInt8), bs.size - i = k → i ≤ bs.size →
    ByteArray.toList.loop bs i r = r.reverse ++ bs.data.toList.drop i := by
  have hsz : bs.data.toList.length = bs.size := by simp
  intro k
  induction k with
  | zero =>
    intro i r hk hi
    rw [ByteArray.toList.loop]
    have : ¬ i < bs.size := by omega
    simp only [this, ↓reduceIte]
    rw [List.drop_eq_nil_of_le (by omega)]; simp
  | succ k ih =>
    intro i r hk hi
    rw [ByteArray.toList.loop]
    have hlt : i < bs.size := by omega
    simp only [hlt, ↓reduceIte]
    rw [ih (i+1) _ (by omega) (by omega)]
    have h2 : i < bs.data.toList.length := by omega
    rw [List.drop_eq_getElem_cons h2]
    simp [ByteArray.get!]
    exact getElem!_pos bs.data i (by simpa using hlt)

theorem byteArray_toList (bs : ByteArray) : bs.toList = bs.data.toList := by
  unfold ByteArray.toList
  rw [byteArray_toList_loop bs _ 0 [] rfl (Nat.zero_le _)]; simp

theorem byteArray_toList_inj {a b : ByteArray} (h : a.toList = b.toList) : a = b := by
  rw [byteArray_toList, byteArray_toList] at h
  cases a; cases b; simp at h; simp [h]

theorem strJ_inj {s t : String} (h : strJ s = strJ t) : s = t := by
  simp only [strJ, JVal.str.injEq] at h
  exact String.toByteArray_inj.mp (byteArray_toList_inj h)

theorem decDigits_eq (n : Nat) : decDigits n = Nat.toDigits 10 n := by
  simp [decDigits]

theorem decDigits_inj {m n : Nat} (h : decDigits m = decDigits n) : m = n := by
  rw [decDigits_eq, decDigits_eq] at h
  have := congrArg (fun l => Nat.ofDigitChars 10 l 0) h
  simpa [Nat.ofDigitChars_ten_toDigits] using this

theorem toString_nat_inj {m n : Nat} (h : toString m = toString n) : m = n :=
  decDigits_inj (by simp [decDigits, h])

theorem dot_not_mem_decDigits (n : Nat) : '.' ∉ decDigits n := by
  rw [decDigits_eq]
  intro h
  have := Nat.isDigit_of_mem_toDigits (by decide) (by decide) h
  revert this; decide

theorem split_at_sep {c : Char} : ∀ {a a' b b' : List Char}, c ∉ a → c ∉ a' →
    a ++ c :: b = a' ++ c :: b' → a = a' ∧ b = b' := by
  intro a
  induction a with
  | nil =>
    intro a' b b' _ ha' h
    cases a' with
    | nil => simpa using h
    | cons x xs => simp at h; simp [h.1] at ha'
  | cons x xs ih =>
    intro a' b b' ha ha' h
    cases a' with
    | nil => simp at h; simp [h.1] at ha
    | cons y ys =>
      simp only [List.cons_append, List.cons.injEq] at h
      simp only [List.mem_cons, not_or] at ha ha'
      obtain ⟨h1, h2⟩ := ih ha.2 ha'.2 h.2
      simp [h.1, h1, h2]

def hexUVal (b : UInt8) : Nat := if b.toNat < 58 then b.toNat - 48 else b.toNat - 55

theorem hexUVal_hexDigitUpper : ∀ n, n < 16 → hexUVal ((hexDigitUpper n).toNat.toUInt8) = n := by decide

def macPair (b : UInt8) : Bytes :=
  [(hexDigitUpper (b.toNat / 16)).toNat.toUInt8, (hexDigitUpper (b.toNat % 16)).toNat.toUInt8]

theorem macPair_inj {a b : UInt8} (h : macPair a = macPair b) : a = b := by
  simp only [macPair, List.cons.injEq, and_true] at h
  have h1 := congrArg hexUVal h.1
  have h2 := congrArg hexUVal h.2
  have ha := a.toNat_lt
  have hb := b.toNat_lt
  rw [hexUVal_hexDigitUpper _ (by omega), hexUVal_hexDigitUpper _ (by omega)] at h1 h2
  apply UInt8.toNat_inj.mp
  omega

theorem macText_nil : macText [] = [] := rfl
theorem macText_one (a : UInt8) : macText [a] = macPair a := by simp [macText, macPair]
theorem macText_cons2 (a b : UInt8) (r : Bytes) : macText (a :: b :: r) = macPair a ++ 58 :: macText (b :: r) := by
  simp [macText, macPair]

theorem macText_inj : ∀ {x y : Bytes}, macText x = macText y → x = y := by
  intro x
  induction x with
  | nil =>
    intro y h
    match y with
    | [] => rfl
    | [a] => simp [macText_nil, macText_one, macPair] at h
    | a :: b :: r => simp [macText_nil, macText_cons2, macPair] at h
  | cons a x ih =>
    intro y h
    match x, y with
    | [], [] => simp [macText_nil, macText_one, macPair] at h
    | [], [b] => rw [macText_one, macText_one] at h; rw [macPair_inj h]
    | [], b :: b' :: r => simp [macText_one, macText_cons2, macPair] at h
    | a' :: x', [] => simp [macText_nil, macText_cons2, macPair] at h
    | a' :: x', [b] => simp [macText_one, macText_cons2, macPair] at h
    | a' :: x', b :: b' :: r =>
      rw [macText_cons2, macText_cons2] at h
      have h1 : macPair a = macPair b := by
        simp only [macPair, List.cons_append, List.nil_append, List.cons.injEq] at h ⊢
        simp [h.1, h.2.1]
      have h2 : macText (a' :: x') = macText (b' :: r) := by
        simp only [macPair, List.cons_append, List.nil_append, List.cons.injEq] at h
        exact h.2.2.2
      rw [macPair_inj h1, ih h2]


theorem ip4Text_inj {m n : Nat} (hm : m < 2 ^ 32) (hn : n < 2 ^ 32) (h : ip4Text m = ip4Text n) : m = n := by
  have h := String.ofList_injective h
  simp only [List.append_assoc, List.cons_append, List.nil_append] at h
  obtain ⟨h1, h⟩ := split_at_sep (dot_not_mem_decDigits _) (dot_not_mem_decDigits _) h
  obtain ⟨h2, h⟩ := split_at_sep (dot_not_mem_decDigits _) (dot_not_mem_decDigits _) h
  obtain ⟨h3, h4⟩ := split_at_sep (dot_not_mem_decDigits _) (dot_not_mem_decDigits _) h
  have h1 := decDigits_inj h1
  have h2 := decDigits_inj h2
  have h3 := decDigits_inj h3
  have h4 := decDigits_inj h4
  omega

def keysOf (tbl : List (Nat × String)) : List Nat := tbl.map (·.1)

def bytesFp (l : List UInt8) : Nat := l.foldr (fun b a => a * 512 + (b.toNat + 1)) 0
def strFp (s : String) : Nat := bytesFp s.toByteArray.data.toList

def forceNat {β : Type} (n : Nat) (k : Nat → β) : β :=
  match n + 1 with
  | 0 => k 0
  | m + 1 => k m

def fpsK {β : Type} : List (Nat × String) → (List Nat → β) → β
  | [], k => k []
  | p :: ps, k => forceNat (strFp p.2) fun n => fpsK ps fun ns => k (n :: ns)

def distinctN : List Nat → Bool
  | [] => true
  | x :: xs => xs.all (fun y => !(Nat.beq x y)) && distinctN xs

def distinctBk (l : List Nat) : Bool := (List.range 32).all fun b => distinctN (l.filter fun x => Nat.beq (x % 32) b)
def injTblB (tbl : List (Nat × String)) : Bool := distinctBk (keysOf tbl) && fpsK tbl distinctBk

theorem forceNat_eq {β : Type} (n : Nat) (k : Nat → β) : forceNat n k = k n := by simp [forceNat]

theorem fpsK_eq {β : Type} : ∀ (tbl : List (Nat × String)) (k : List Nat → β), fpsK tbl k = k (tbl.map fun p => strFp p.2)
  | [], k => rfl
  | p :: ps, k => by simp [fpsK, forceNat_eq, fpsK_eq ps]

theorem distinctN_nodup : ∀ {l : List Nat}, distinctN l = true → l.Nodup
  | [], _ => List.nodup_nil
  | x :: xs, h => by
    simp only [distinctN, Bool.and_eq_true, List.all_eq_true, Bool.not_eq_eq_eq_not, Bool.not_true] at h
    refine List.nodup_cons.mpr ⟨?_, distinctN_nodup h.2⟩
    intro hx
    have := h.1 x hx
    simp at this

theorem distinctBk_nodup {l : List Nat} (h : distinctBk l = true) : l.Nodup := by
  rw [List.nodup_iff_count]
  intro a
  simp only [distinctBk, List.all_eq_true, List.mem_range] at h
  have h1 := distinctN_nodup (h (a % 32) (Nat.mod_lt _ (by decide)))
  rw [List.nodup_iff_count] at h1
  have h2 := h1 a
  rwa [List.count_filter (by simp)] at h2

theorem bytesFp_inj : ∀ {x y : List UInt8}, bytesFp x = bytesFp y → x = y := by
  intro x
  induction x with
  | nil =>
    intro y h
    cases y with
    | nil => rfl
    | cons b y => simp only [bytesFp, List.foldr] at h; omega
  | cons a x ih =>
    intro y h
    cases y with
    | nil => simp only [bytesFp, List.foldr] at h; omega
    | cons b y =>
      simp only [bytesFp, List.foldr] at h
      have ha := a.toNat_lt
      have hb := b.toNat_lt
      have h1 : a.toNat = b.toNat := by omega
      have h2 : bytesFp x = bytesFp y := by simp only [bytesFp]; omega
      rw [UInt8.toNat_inj.mp h1, ih h2]

theorem strFp_inj {s t : String} (h : strFp s = strFp t) : s = t := by
  have := bytesFp_inj h
  apply String.toByteArray_inj.mp
  cases hs : s.toByteArray; cases ht : t.toByteArray
  simp [hs, ht] at this
  simp [this]


/-- the name table is injective on its key set (as in the task statement) -/
def NameInj (tbl : List (Nat × String)) : Prop :=
  ∀ d₁ ∈ keysOf tbl, ∀ d₂ ∈ keysOf tbl, nameOf tbl d₁ = nameOf tbl d₂ → d₁ = d₂

theorem lookup_of_mem_nodup : ∀ {tbl : List (Nat × String)} {d : Nat} {s : String},
    (keysOf tbl).Nodup → (d, s) ∈ tbl → tbl.lookup d = some s := by
  intro tbl
  induction tbl with
  | nil => intro d s _ h; simp at h
  | cons p rest ih =>
    intro d s hn hm
    obtain ⟨k, v⟩ := p
    simp only [keysOf, List.map_cons, List.nodup_cons] at hn
    simp only [List.mem_cons, Prod.mk.injEq] at hm
    rcases hm with ⟨rfl, rfl⟩ | hm
    · simp [List.lookup]
    · have hne : d ≠ k := by
        intro he; subst he
        exact hn.1 (List.mem_map_of_mem (f := (·.1)) hm)
      have : (d == k) = false := by simpa using hne
      simp only [List.lookup, this]
      exact ih hn.2 hm

theorem key_eq_of_name_nodup : ∀ {tbl : List (Nat × String)} {d₁ d₂ : Nat} {s : String},
    (tbl.map (·.2)).Nodup → (d₁, s) ∈ tbl → (d₂, s) ∈ tbl → d₁ = d₂ := by
  intro tbl
  induction tbl with
  | nil => intro d₁ d₂ s _ h; simp at h
  | cons p rest ih =>
    intro d₁ d₂ s hn h1 h2
    obtain ⟨k, v⟩ := p
    simp only [List.map_cons, List.nodup_cons] at hn
    simp only [List.mem_cons, Prod.mk.injEq] at h1 h2
    rcases h1 with ⟨rfl, rfl⟩ | h1 <;> rcases h2 with ⟨rfl, h2'⟩ | h2
    · rfl
    · exact absurd (List.mem_map_of_mem (f := (·.2)) h2) hn.1
    · subst h2'; exact absurd (List.mem_map_of_mem (f := (·.2)) h1) hn.1
    · exact ih hn.2 h1 h2

theorem nameInj_of_injTblB {tbl : List (Nat × String)} (h : injTblB tbl = true) : NameInj tbl := by
  simp only [injTblB, Bool.and_eq_true, fpsK_eq] at h
  have hk := distinctBk_nodup h.1
  have hv : (tbl.map (·.2)).Nodup := by
    have := distinctBk_nodup h.2
    have h3 : (tbl.map fun p => strFp p.2) = (tbl.map (·.2)).map strFp := by simp
    rw [h3] at this
    exact List.Pairwise.of_map strFp (fun a b hab he => hab (by rw [he])) this
  intro d₁ h1 d₂ h2 he
  obtain ⟨⟨_, s₁⟩, hm1, rfl⟩ := List.mem_map.mp h1
  obtain ⟨⟨_, s₂⟩, hm2, rfl⟩ := List.mem_map.mp h2
  simp only [nameOf, lookup_of_mem_nodup hk hm1, lookup_of_mem_nodup hk hm2, Option.getD_some] at he
  have := strJ_inj he
  subst this
  exact key_eq_of_name_nodup hv hm1 hm2

/-! ### generic list helper -/

theorem map_eq_map_of {α β γ : Type} {f : α → β} {g : α → γ} : ∀ {l l' : List α},
    (∀ a ∈ l, ∀ b ∈ l', f a = f b → g a = g b) → l.map f = l'.map f → l.map g = l'.map g := by
  intro l
  induction l with
  | nil => intro l' _ h; cases l' with
    | nil => rfl
    | cons b l' => simp at h
  | cons a l ih =>
    intro l' hp h
    cases l' with
    | nil => simp at h
    | cons b l' =>
      simp only [List.map_cons, List.cons.injEq] at h ⊢
      exact ⟨hp a (by simp) b (by simp) h.1,
        ih (fun x hx y hy => hp x (List.mem_cons_of_mem _ hx) y (List.mem_cons_of_mem _ hy)) h.2⟩

theorem bytesJ_inj {a b : Bytes} (h : bytesJ a = bytesJ b) : a = b := by
  simp only [bytesJ, JVal.arr.injEq] at h
  refine (List.map_inj_right ?_).mp h
  intro x y hxy
  simp only [JVal.num.injEq, Int.natCast_inj] at hxy
  exact UInt8.toNat_inj.mp hxy

/-! ### hex groups -/

def hexVal1 (c : Char) : Nat := if c.toNat < 58 then c.toNat - 48 else c.toNat - 87
def hexVal (cs : List Char) : Nat := cs.foldl (fun a c => a * 16 + hexVal1 c) 0

theorem hexVal1_hexDigit : ∀ d, d < 16 → hexVal1 (hexDigit d) = d := by decide
theorem hexDigit_not_sep : ∀ d, d < 16 → hexDigit d ≠ ':' ∧ hexDigit d ≠ '.' := by decide

theorem hexVal_hexLower {s : Nat} (hs : s < 65536) : hexVal (hexLower s) = s := by
  unfold hexLower
  split
  · simp only [hexVal, List.foldl]; rw [hexVal1_hexDigit _ (by omega)]; omega
  split
  · simp only [hexVal, List.foldl]; rw [hexVal1_hexDigit _ (by omega), hexVal1_hexDigit _ (by omega)]; omega
  split
  · simp only [hexVal, List.foldl]
    rw [hexVal1_hexDigit _ (by omega), hexVal1_hexDigit _ (by omega), hexVal1_hexDigit _ (by omega)]; omega
  · simp only [hexVal, List.foldl]
    rw [hexVal1_hexDigit _ (by omega), hexVal1_hexDigit _ (by omega), hexVal1_hexDigit _ (by omega),
      hexVal1_hexDigit _ (by omega)]; omega

theorem hexLower_inj {s t : Nat} (hs : s < 65536) (ht : t < 65536) (h : hexLower s = hexLower t) : s = t := by
  have := congrArg hexVal h
  rwa [hexVal_hexLower hs, hexVal_hexLower ht] at this

theorem hexLower_ne_nil (s : Nat) : hexLower s ≠ [] := by
  unfold hexLower; repeat' split
  all_goals simp

theorem hexLower_no_sep {s : Nat} {c : Char} (hc : c ∈ hexLower s) : c ≠ ':' ∧ c ≠ '.' := by
  unfold hexLower at hc
  repeat' split at hc
  all_goals
    simp only [List.mem_cons, List.not_mem_nil, or_false] at hc
    rcases hc with rfl | rfl | rfl | rfl <;> exact hexDigit_not_sep _ (by omega)

/-! ### splitting a text at colons -/

/-- (first group, remaining groups) of the text split at every `:` -/
def splitC : List Char → List Char × List (List Char)
  | [] => ([], [])
  | x :: xs => if x = ':' then ([], (splitC xs).1 :: (splitC xs).2) else (x :: (splitC xs).1, (splitC xs).2)

def groups (l : List Char) : List (List Char) := (splitC l).1 :: (splitC l).2

theorem groups_nil : groups [] = [[]] := rfl

theorem groups_append_sep (a b : List Char) : groups (a ++ ':' :: b) = groups a ++ groups b := by
  induction a with
  | nil => simp [groups, splitC]
  | cons x a ih =>
    simp only [groups] at ih ⊢
    by_cases hx : x = ':'
    · simp only [List.cons_append, List.cons.injEq] at ih
      simp only [List.cons_append, splitC, hx, ↓reduceIte, List.cons.injEq, true_and]
      exact ih
    · simp only [List.cons_append, List.cons.injEq] at ih
      simp only [List.cons_append, splitC, hx, ↓reduceIte, List.cons.injEq]
      exact ⟨by simp [ih.1], ih.2⟩

theorem groups_of_no_sep {a : List Char} (h : ':' ∉ a) : groups a = [a] := by
  induction a with
  | nil => rfl
  | cons x a ih =>
    simp only [List.mem_cons, not_or] at h
    have hx : x ≠ ':' := fun e => h.1 e.symm
    have := ih h.2
    simp only [groups, List.cons.injEq] at this ⊢
    simp only [splitC, hx, ↓reduceIte, this.1, this.2, and_self]

theorem joinColon_nil : joinColon [] = [] := rfl
theorem joinColon_one (g : List Char) : joinColon [g] = g := by simp [joinColon]
theorem joinColon_cons2 (g h : List Char) (t : List (List Char)) :
    joinColon (g :: h :: t) = g ++ ':' :: joinColon (h :: t) := by simp [joinColon]

/-- groups that are non-empty and contain no colon -/
def GoodGroups (gs : List (List Char)) : Prop := ∀ g ∈ gs, g ≠ [] ∧ ':' ∉ g

theorem groups_joinColon : ∀ {gs : List (List Char)}, GoodGroups gs → gs ≠ [] → groups (joinColon gs) = gs
  | [], _, h => absurd rfl h
  | [g], hg, _ => by rw [joinColon_one, groups_of_no_sep (hg g (by simp)).2]
  | g :: h :: t, hg, _ => by
    rw [joinColon_cons2, groups_append_sep, groups_of_no_sep (hg g (by simp)).2,
      groups_joinColon (gs := h :: t) (fun x hx => hg x (List.mem_cons_of_mem _ hx)) (by simp)]
    rfl

/-- `groups (joinColon gs)` for possibly empty `gs` -/
def sOf (gs : List (List Char)) : List (List Char) := if gs = [] then [[]] else gs

theorem groups_joinColon' {gs : List (List Char)} (hg : GoodGroups gs) : groups (joinColon gs) = sOf gs := by
  unfold sOf; split
  · next h => subst h; rfl
  · next h => exact groups_joinColon hg h

theorem groups_compressed {H L : List (List Char)} (hH : GoodGroups H) (hL : GoodGroups L) :
    groups (joinColon H ++ [':', ':'] ++ joinColon L) = sOf H ++ [] :: sOf L := by
  have : joinColon H ++ [':', ':'] ++ joinColon L = joinColon H ++ ':' :: ([] ++ ':' :: joinColon L) := by simp
  rw [this, groups_append_sep, groups_append_sep, groups_joinColon' hH, groups_joinColon' hL]
  rfl

theorem takeWhile_sOf {H : List (List Char)} (hH : GoodGroups H) (Y : List (List Char)) :
    (sOf H ++ [] :: Y).takeWhile (fun g => !g.isEmpty) = H := by
  unfold sOf; split
  · next h => subst h; simp
  · next h =>
    rw [List.takeWhile_append_of_pos]
    · simp
    · intro g hgm
      have := (hH g hgm).1
      cases g with
      | nil => exact absurd rfl this
      | cons _ _ => rfl

theorem sOf_reverse (H : List (List Char)) : (sOf H).reverse = sOf H.reverse := by
  unfold sOf; split
  · next h => subst h; simp
  · next h => simp [h]

theorem GoodGroups.reverse {H : List (List Char)} (h : GoodGroups H) : GoodGroups H.reverse :=
  fun g hg => h g (List.mem_reverse.mp hg)

/-- the compressed rendering determines both halves -/
theorem compressed_inj {H L H' L' : List (List Char)} (hH : GoodGroups H) (hL : GoodGroups L)
    (hH' : GoodGroups H') (hL' : GoodGroups L')
    (h : joinColon H ++ [':', ':'] ++ joinColon L = joinColon H' ++ [':', ':'] ++ joinColon L') : H = H' ∧ L = L' := by
  have hg := congrArg groups h
  rw [groups_compressed hH hL, groups_compressed hH' hL'] at hg
  constructor
  · have := congrArg (List.takeWhile fun g => !g.isEmpty) hg
    rwa [takeWhile_sOf hH, takeWhile_sOf hH'] at this
  · have := congrArg (fun X => (List.takeWhile (fun g => !g.isEmpty) X.reverse)) hg
    simp only [List.reverse_append, List.reverse_cons, List.append_assoc, List.singleton_append, sOf_reverse] at this
    rw [takeWhile_sOf hL.reverse, takeWhile_sOf hL'.reverse] at this
    exact List.reverse_inj.mp this

theorem nil_mem_groups_compressed {H L : List (List Char)} (hH : GoodGroups H) (hL : GoodGroups L) :
    [] ∈ groups (joinColon H ++ [':', ':'] ++ joinColon L) := by
  rw [groups_compressed hH hL]; simp


/-! ### the run chosen by `longestZeroRun` consists of zero segments -/

def ZeroRun (l : List Nat) (s k : Nat) : Prop := s + k ≤ l.length ∧ ∀ i, s ≤ i → i < s + k → l[i]? = some 0

theorem ZeroRun.append {l : List Nat} {s k : Nat} (h : ZeroRun l s k) (r : List Nat) : ZeroRun (l ++ r) s k := by
  refine ⟨by simp only [List.length_append]; have := h.1; omega, fun i h1 h2 => ?_⟩
  rw [List.getElem?_append_left (by have := h.1; omega)]
  exact h.2 i h1 h2

theorem go_zeroRun : ∀ (rest pre : List Nat) (cs cl bs bl : Nat),
    ZeroRun pre bs bl → ZeroRun pre cs cl → (0 < cl → cs + cl = pre.length) →
    ZeroRun (pre ++ rest) (longestZeroRun.go rest pre.length cs cl bs bl).1
      (longestZeroRun.go rest pre.length cs cl bs bl).2 := by
  intro rest
  induction rest with
  | nil =>
    intro pre cs cl bs bl hb hc _
    simp only [longestZeroRun.go, List.append_nil]
    split <;> assumption
  | cons s tl ih =>
    intro pre cs cl bs bl hb hc hcl
    have hpre : pre ++ s :: tl = (pre ++ [s]) ++ tl := by simp
    have hlen : pre.length + 1 = (pre ++ [s]).length := by simp
    rw [hpre]
    simp only [longestZeroRun.go]
    split
    · next hs =>
      subst hs
      rw [hlen]
      apply ih
      · exact hb.append _
      · constructor
        · simp only [List.length_append, List.length_singleton]
          split <;> omega
        · intro i h1 h2
          by_cases hi : i < pre.length
          · rw [List.getElem?_append_left hi]
            have hpos : 0 < cl := by
              by_cases h0 : cl = 0
              · simp only [h0, ↓reduceIte] at h1 h2; omega
              · omega
            have h0 : ¬ cl = 0 := by omega
            simp only [h0, ↓reduceIte] at h1 h2
            exact hc.2 i h1 (by have := hcl hpos; omega)
          · have : i = pre.length := by
              have := hc.1
              split at h2 <;> omega
            subst this
            simp
      · intro _
        simp only [List.length_append, List.length_singleton]
        split
        · omega
        · have := hcl (by omega); omega
    · next hs =>
      rw [hlen]
      have hz : ZeroRun (pre ++ [s]) 0 0 := ⟨by simp, fun i h1 h2 => by omega⟩
      split
      · exact ih _ _ _ _ _ (hc.append _) hz (by omega)
      · exact ih _ _ _ _ _ (hb.append _) hz (by omega)

theorem longestZeroRun_zeroRun (l : List Nat) : ZeroRun l (longestZeroRun l).1 (longestZeroRun l).2 := by
  have := go_zeroRun l [] 0 0 0 0 ⟨by simp, fun i _ _ => by omega⟩ ⟨by simp, fun i _ _ => by omega⟩ (by omega)
  simpa [longestZeroRun] using this

/-! ### `ip6Text` -/

theorem segments_length (n : Nat) : (segments n).length = 8 := by simp [segments]

theorem segments_lt {n x : Nat} (h : x ∈ segments n) : x < 65536 := by
  simp only [segments, List.mem_map] at h
  obtain ⟨i, _, rfl⟩ := h
  exact Nat.mod_lt _ (by decide)

theorem segments_inj {m n : Nat} (hm : m < 2 ^ 128) (hn : n < 2 ^ 128) (h : segments m = segments n) : m = n := by
  simp only [segments, List.range, List.range.loop, List.map_cons, List.map_nil, List.cons.injEq, and_true,
    Nat.reducePow, Nat.reduceSub, Nat.pow_zero, Nat.div_one] at h
  omega

theorem goodGroups_hex (l : List Nat) : GoodGroups (l.map hexLower) := by
  intro g hg
  obtain ⟨x, _, rfl⟩ := List.mem_map.mp hg
  exact ⟨hexLower_ne_nil x, fun h => (hexLower_no_sep h).1 rfl⟩

theorem hexGroups_inj {l l' : List Nat} (hl : ∀ x ∈ l, x < 65536) (hl' : ∀ x ∈ l', x < 65536)
    (h : l.map hexLower = l'.map hexLower) : l = l' := by
  have := map_eq_map_of (g := id) (fun a ha b hb hab => hexLower_inj (hl a ha) (hl' b hb) hab) h
  simpa using this

theorem dot_not_mem_joinColon : ∀ {gs : List (List Char)}, (∀ g ∈ gs, '.' ∉ g) → '.' ∉ joinColon gs
  | [], _ => by simp [joinColon_nil]
  | [g], h => by rw [joinColon_one]; exact h g (by simp)
  | g :: h :: t, hg => by
    rw [joinColon_cons2]
    simp only [List.mem_append, List.mem_cons, not_or]
    exact ⟨hg g (by simp), by decide, dot_not_mem_joinColon (gs := h :: t) (fun x hx => hg x (List.mem_cons_of_mem _ hx))⟩

theorem dot_not_mem_hexJoin (l : List Nat) : '.' ∉ joinColon (l.map hexLower) := by
  apply dot_not_mem_joinColon
  intro g hg
  obtain ⟨x, _, rfl⟩ := List.mem_map.mp hg
  exact fun h => (hexLower_no_sep h).2 rfl

def Mapped (n : Nat) : Prop := (segments n).take 5 = [0, 0, 0, 0, 0] ∧ (segments n).getD 5 0 = 0xffff

theorem ip6Text_cases (n : Nat) :
    (Mapped n ∧ ip6Text n = "::ffff:" ++ ip4Text (n % 4294967296)) ∨
    (¬ Mapped n ∧ ∃ st len, ZeroRun (segments n) st len ∧
      (ip6Text n).toList = joinColon (((segments n).take st).map hexLower) ++ [':', ':'] ++
        joinColon (((segments n).drop (st + len)).map hexLower)) ∨
    (¬ Mapped n ∧ (ip6Text n).toList = joinColon ((segments n).map hexLower)) := by
  by_cases hm : Mapped n
  · left
    refine ⟨hm, ?_⟩
    unfold Mapped at hm
    simp only [ip6Text, hm, and_self, ↓reduceIte]
  · right
    have hz := longestZeroRun_zeroRun (segments n)
    rcases hl : longestZeroRun (segments n) with ⟨st, len⟩
    rw [hl] at hz
    by_cases h2 : len ≥ 2
    · left
      refine ⟨hm, st, len, hz, ?_⟩
      unfold Mapped at hm
      simp only [ip6Text, hm, ↓reduceIte, hl, h2, String.toList_ofList]
    · right
      refine ⟨hm, ?_⟩
      unfold Mapped at hm
      simp only [ip6Text, hm, ↓reduceIte, hl, h2, String.toList_ofList]


theorem dot_mem_mapped (x : Nat) : '.' ∈ ("::ffff:" ++ ip4Text x).toList := by
  simp [ip4Text, String.toList_append]

theorem list_eq_of_parts {l l' : List Nat} {s k : Nat}
    (hz : ZeroRun l s k) (hz' : ZeroRun l' s k) (ht : l.take s = l'.take s) (hd : l.drop (s + k) = l'.drop (s + k)) :
    l = l' := by
  apply List.ext_getElem? 
  intro i
  by_cases h1 : i < s
  · have := congrArg (fun x => x[i]?) ht
    simpa [List.getElem?_take, h1] using this
  · by_cases h2 : i < s + k
    · rw [hz.2 i (by omega) h2, hz'.2 i (by omega) h2]
    · have := congrArg (fun x => x[i - (s + k)]?) hd
      simp only [List.getElem?_drop] at this
      rwa [show s + k + (i - (s + k)) = i by omega] at this

theorem ip6Text_inj {m n : Nat} (hm : m < 2 ^ 128) (hn : n < 2 ^ 128) (h : ip6Text m = ip6Text n) : m = n := by
  have hl := congrArg String.toList h
  rcases ip6Text_cases m with ⟨hM, tm⟩ | ⟨hM, sm, km, zm, tm⟩ | ⟨hM, tm⟩ <;>
  rcases ip6Text_cases n with ⟨hN, tn⟩ | ⟨hN, sn, kn, zn, tn⟩ | ⟨hN, tn⟩
  · -- both IPv4-mapped
    rw [tm, tn] at h
    have h4 : ip4Text (m % 4294967296) = ip4Text (n % 4294967296) := by
      have := congrArg String.toList h
      simp only [String.toList_append] at this
      exact String.toList_inj.mp (List.append_cancel_left this)
    have := ip4Text_inj (Nat.mod_lt _ (by decide)) (Nat.mod_lt _ (by decide)) h4
    simp only [Mapped, segments, List.range, List.range.loop, List.map_cons, List.map_nil, List.take_succ_cons,
      List.take_zero, List.cons.injEq, and_true, List.getD_cons_succ, List.getD_cons_zero,
      Nat.reducePow, Nat.reduceSub] at hM hN
    omega
  · exfalso
    have := dot_mem_mapped (m % 4294967296)
    rw [← tm, hl, tn] at this
    simp only [List.mem_append, List.mem_cons, List.not_mem_nil, or_false] at this
    rcases this with (h1 | h1 | h1) | h1
    · exact dot_not_mem_hexJoin _ h1
    · revert h1; decide
    · revert h1; decide
    · exact dot_not_mem_hexJoin _ h1
  · exfalso
    have := dot_mem_mapped (m % 4294967296)
    rw [← tm, hl, tn] at this
    exact dot_not_mem_hexJoin _ this
  · exfalso
    have := dot_mem_mapped (n % 4294967296)
    rw [← tn, ← hl, tm] at this
    simp only [List.mem_append, List.mem_cons, List.not_mem_nil, or_false] at this
    rcases this with (h1 | h1 | h1) | h1
    · exact dot_not_mem_hexJoin _ h1
    · revert h1; decide
    · revert h1; decide
    · exact dot_not_mem_hexJoin _ h1
  · -- both compressed
    rw [tm, tn] at hl
    obtain ⟨e1, e2⟩ := compressed_inj (goodGroups_hex _) (goodGroups_hex _) (goodGroups_hex _) (goodGroups_hex _) hl
    have lt_m : ∀ x ∈ segments m, x < 65536 := fun x hx => segments_lt hx
    have lt_n : ∀ x ∈ segments n, x < 65536 := fun x hx => segments_lt hx
    have e1 := hexGroups_inj (fun x hx => lt_m x (List.mem_of_mem_take hx)) (fun x hx => lt_n x (List.mem_of_mem_take hx)) e1
    have e2 := hexGroups_inj (fun x hx => lt_m x (List.mem_of_mem_drop hx)) (fun x hx => lt_n x (List.mem_of_mem_drop hx)) e2
    have l1 := congrArg List.length e1
    have l2 := congrArg List.length e2
    have b1 : sm + km ≤ 8 := by have := zm.1; rwa [segments_length] at this
    have b2 : sn + kn ≤ 8 := by have := zn.1; rwa [segments_length] at this
    simp only [List.length_take, List.length_drop, segments_length] at l1 l2
    have hs : sm = sn := by omega
    have hk : km = kn := by omega
    subst hs hk
    exact segments_inj hm hn (list_eq_of_parts zm zn e1 e2)
  · exfalso
    rw [tm, tn] at hl
    have h1 := nil_mem_groups_compressed (goodGroups_hex ((segments m).take sm)) (goodGroups_hex ((segments m).drop (sm + km)))
    rw [hl, groups_joinColon (goodGroups_hex _) (by simp [segments])] at h1
    exact ((goodGroups_hex _) [] h1).1 rfl
  · exfalso
    have := dot_mem_mapped (n % 4294967296)
    rw [← tn, ← hl, tm] at this
    exact dot_not_mem_hexJoin _ this
  · exfalso
    rw [tm, tn] at hl
    have h1 := nil_mem_groups_compressed (goodGroups_hex ((segments n).take sn)) (goodGroups_hex ((segments n).drop (sn + kn)))
    rw [← hl, groups_joinColon (goodGroups_hex _) (by simp [segments])] at h1
    exact ((goodGroups_hex _) [] h1).1 rfl
  · -- both uncompressed
    rw [tm, tn] at hl
    have := congrArg groups hl
    rw [groups_joinColon (goodGroups_hex _) (by simp [segments]),
      groups_joinColon (goodGroups_hex _) (by simp [segments])] at this
    exact segments_inj hm hn (hexGroups_inj (fun x hx => segments_lt hx) (fun x hx => segments_lt hx) this)

/-- `ip6Text` is injective on 128-bit values (named statement) -/
def Ip6TextInjective : Prop := ∀ m n : Nat, m < 2 ^ 128 → n < 2 ^ 128 → ip6Text m = ip6Text n → m = n

theorem ip6TextInjective : Ip6TextInjective := fun _ _ hm hn h => ip6Text_inj hm hn h


/-! ### numbers: the JSON shows the value, not the width tag (`#[serde(untagged)]`) -/

def dnVal : DataNumber → Int
  | .u8 n | .u16 n | .u24 n | .u32 n | .u64 n | .u128 n => (n : Int)
  | .i24 z | .i32 z => z

theorem dataNumberJ_eq (d : DataNumber) : dataNumberJ d = .num (dnVal d) := by cases d <;> rfl

/-- canonical representative of a `DataNumber` among those with the same numeric value -/
def normDn (d : DataNumber) : DataNumber :=
  if 0 ≤ dnVal d then .u128 (dnVal d).toNat else .i32 (dnVal d)

theorem dnVal_normDn (d : DataNumber) : dnVal (normDn d) = dnVal d := by
  unfold normDn
  split
  · next h => exact Int.toNat_of_nonneg h
  · rfl

def normFv : FieldValue → FieldValue
  | .num d => .num (normDn d)
  | v => v

def normRec (r : Rec) : Rec := r.map fun e => (e.1, e.2.1, normFv e.2.2)

def fvWf (nm : JNames) : FieldValue → Bool
  | .ip4 n => decide (n < 2 ^ 32)
  | .ip6 n => decide (n < 2 ^ 128)
  | .proto d => (keysOf nm.proto).contains d
  | _ => true

theorem fieldValueJ_normFv (nm : JNames) (v : FieldValue) : fieldValueJ nm (normFv v) = fieldValueJ nm v := by
  cases v <;> simp [normFv, fieldValueJ, dataNumberJ_eq, dnVal_normDn]

theorem fieldValueJ_inj {nm : JNames} (hp : NameInj nm.proto) {v w : FieldValue}
    (hv : fvWf nm v = true) (hw : fvWf nm w = true) (h : fieldValueJ nm v = fieldValueJ nm w) :
    normFv v = normFv w := by
  cases v <;> cases w <;> simp [fieldValueJ] at h
  case str.str => simp [h]
  case num.num =>
    rw [dataNumberJ_eq, dataNumberJ_eq, JVal.num.injEq] at h
    simp only [normFv, normDn, h]
  case f64.f64 => simp [h]
  case dur.dur => obtain ⟨h1, h2⟩ := h; simp only [Int.natCast_inj] at h1 h2; simp [h1, h2]
  case ip4.ip4 =>
    simp only [fvWf, decide_eq_true_eq] at hv hw
    rw [ip4Text_inj hv hw (strJ_inj h)]
  case ip6.ip6 =>
    simp only [fvWf, decide_eq_true_eq] at hv hw
    rw [ip6Text_inj hv hw (strJ_inj h)]
  case mac.mac => rw [macText_inj h]
  case vec.vec => rw [bytesJ_inj h]
  case proto.proto =>
    simp only [fvWf, List.contains_iff_mem] at hv hw
    rw [hp _ hv _ hw h]
  case unknown.unknown => rw [bytesJ_inj h]

/-! ### records -/

def recWf (nm : JNames) (names : List (Nat × String)) (r : Rec) : Bool :=
  r.all fun e => (keysOf names).contains e.2.1 && fvWf nm e.2.2

theorem recJ_normRec (nm : JNames) (names : List (Nat × String)) (r : Rec) :
    recJ nm names (normRec r) = recJ nm names r := by
  simp [recJ, normRec, fieldValueJ_normFv]

theorem recJ_inj {nm : JNames} {names : List (Nat × String)} (hp : NameInj nm.proto) (hn : NameInj names)
    {r s : Rec} (hr : recWf nm names r = true) (hs : recWf nm names s = true)
    (h : recJ nm names r = recJ nm names s) : normRec r = normRec s := by
  simp only [recJ, JVal.obj.injEq] at h
  simp only [recWf, List.all_eq_true, Bool.and_eq_true, List.contains_iff_mem] at hr hs
  refine map_eq_map_of ?_ h
  intro a ha b hb hab
  obtain ⟨i, d, v⟩ := a
  obtain ⟨j, e, w⟩ := b
  simp only [Prod.mk.injEq, JVal.arr.injEq, List.cons.injEq, and_true] at hab
  obtain ⟨h1, h2, h3⟩ := hab
  have e1 := toString_nat_inj h1
  have e2 := hn _ (hr _ ha).1 _ (hs _ hb).1 h2
  have e3 := fieldValueJ_inj hp (hr _ ha).2 (hs _ hb).2 h3
  simp only at e1 e2 e3 ⊢
  rw [e1, e2, e3]


/-! ### fixed-layout structs -/

def lfieldWf (nm : JNames) (f : LField) (v : Nat) : Bool :=
  match f.kind with
  | .protoOf _ => (keysOf nm.proto).contains v
  | _ => !(nm.ipv4Fields.contains f.name) || decide (v < 2 ^ 32)

/-- one value per layout field; protocol discriminants are table keys; `Ipv4Addr` fields are 32-bit -/
def layoutWf (nm : JNames) (lay : Layout) (vals : List Nat) : Bool :=
  vals.length == lay.length && (lay.zip vals).all fun p => lfieldWf nm p.1 p.2

def lfieldJ (nm : JNames) (f : LField) (v : Nat) : JVal :=
  match f.kind with
  | .protoOf _ => nameOf nm.proto v
  | _ => if nm.ipv4Fields.contains f.name then strJ (ip4Text v) else .num v

theorem layoutJ_eq (nm : JNames) (lay : Layout) (vals : List Nat) :
    layoutJ nm lay vals = .obj ((lay.zip vals).map fun p => (p.1.name, lfieldJ nm p.1 p.2)) := rfl

theorem lfieldJ_inj {nm : JNames} (hp : NameInj nm.proto) {f : LField} {a b : Nat}
    (ha : lfieldWf nm f a = true) (hb : lfieldWf nm f b = true) (h : lfieldJ nm f a = lfieldJ nm f b) : a = b := by
  unfold lfieldJ at h
  unfold lfieldWf at ha hb
  cases hk : f.kind with
  | protoOf src =>
    simp only [hk, List.contains_iff_mem] at h ha hb
    exact hp _ ha _ hb h
  | wire w =>
    simp only [hk, Bool.or_eq_true, Bool.not_eq_eq_eq_not, Bool.not_true, decide_eq_true_eq] at h ha hb
    by_cases hc : nm.ipv4Fields.contains f.name = true
    · simp only [hc, ↓reduceIte, Bool.true_eq_false, false_or] at h ha hb
      exact ip4Text_inj ha hb (strJ_inj h)
    · simp only [hc, Bool.false_eq_true, ↓reduceIte, JVal.num.injEq, Int.natCast_inj] at h
      exact h
  | const v =>
    simp only [hk, Bool.or_eq_true, Bool.not_eq_eq_eq_not, Bool.not_true, decide_eq_true_eq] at h ha hb
    by_cases hc : nm.ipv4Fields.contains f.name = true
    · simp only [hc, ↓reduceIte, Bool.true_eq_false, false_or] at h ha hb
      exact ip4Text_inj ha hb (strJ_inj h)
    · simp only [hc, Bool.false_eq_true, ↓reduceIte, JVal.num.injEq, Int.natCast_inj] at h
      exact h

theorem layoutJ_inj {nm : JNames} (hp : NameInj nm.proto) : ∀ {lay : Layout} {a b : List Nat},
    layoutWf nm lay a = true → layoutWf nm lay b = true → layoutJ nm lay a = layoutJ nm lay b → a = b := by
  intro lay
  induction lay with
  | nil =>
    intro a b ha hb _
    simp only [layoutWf, List.length_nil, Bool.and_eq_true, beq_iff_eq, List.length_eq_zero_iff] at ha hb
    rw [ha.1, hb.1]
  | cons f lay ih =>
    intro a b ha hb h
    cases a with
    | nil => simp [layoutWf] at ha
    | cons x a =>
      cases b with
      | nil => simp [layoutWf] at hb
      | cons y b =>
        simp only [layoutWf, List.length_cons, Bool.and_eq_true, beq_iff_eq, List.zip_cons_cons,
          List.all_cons, Nat.add_right_cancel_iff] at ha hb
        rw [layoutJ_eq, layoutJ_eq] at h
        simp only [List.zip_cons_cons, List.map_cons, JVal.obj.injEq, List.cons.injEq, Prod.mk.injEq, true_and] at h
        have e1 := lfieldJ_inj hp ha.2.1 hb.2.1 h.1
        have e2 : a = b := by
          apply ih
          · simp only [layoutWf, Bool.and_eq_true, beq_iff_eq]; exact ⟨ha.1, ha.2.2⟩
          · simp only [layoutWf, Bool.and_eq_true, beq_iff_eq]; exact ⟨hb.1, hb.2.2⟩
          · rw [layoutJ_eq, layoutJ_eq, h.2]
        rw [e1, e2]

/-! ### template definitions -/

theorem tfieldJ_inj {names : List (Nat × String)} {disc : Nat → Nat} {f g : TField}
    (h : tfieldJ names disc f = tfieldJ names disc g) : f = g := by
  cases f; cases g
  simp only [tfieldJ, JVal.obj.injEq, List.cons.injEq, Prod.mk.injEq, JVal.num.injEq, Int.natCast_inj, true_and, and_true] at h
  simp [h.1, h.2.2]

theorem ipTFieldJ_inj {c : Config} {nm : JNames} {f g : IpTField} (h : ipTFieldJ c nm f = ipTFieldJ c nm g) : f = g := by
  obtain ⟨t1, l1, e1⟩ := f
  obtain ⟨t2, l2, e2⟩ := g
  cases e1 <;> cases e2 <;>
    simp [ipTFieldJ] at h
  · simp only [Int.natCast_inj] at h; simp [h.1, h.2.2]
  · simp only [Int.natCast_inj] at h; simp [h.1, h.2.2.1, h.2.2.2]


theorem list_map_inj {α β : Type} {f : α → β} (hf : ∀ x y, f x = f y → x = y) {l l' : List α}
    (h : l.map f = l'.map f) : l = l' := (List.map_inj_right hf).mp h

theorem v9TemplateJ_inj {c : Config} {nm : JNames} {t u : V9Template}
    (h : (JVal.obj [("template_id", .num t.id), ("field_count", .num t.fieldCount),
            ("fields", .arr (t.fields.map (tfieldJ nm.v9Field c.t.v9Field)))]) =
         (JVal.obj [("template_id", .num u.id), ("field_count", .num u.fieldCount),
            ("fields", .arr (u.fields.map (tfieldJ nm.v9Field c.t.v9Field)))])) : t = u := by
  cases t; cases u
  simp only [JVal.obj.injEq, List.cons.injEq, Prod.mk.injEq, JVal.num.injEq, Int.natCast_inj, true_and, and_true,
    JVal.arr.injEq] at h
  have := list_map_inj (fun _ _ => tfieldJ_inj) h.2.2
  simp [h.1, h.2.1, this]

theorem v9OptTemplateJ_inj {c : Config} {nm : JNames} {t u : V9OptTemplate}
    (h : (JVal.obj [("template_id", .num t.id), ("options_scope_length", .num t.scopeLen), ("options_length", .num t.optLen),
            ("scope_fields", .arr (t.scope.map (tfieldJ nm.scope c.t.scopeField))),
            ("option_fields", .arr (t.opts.map (tfieldJ nm.v9Field c.t.v9Field)))]) =
         (JVal.obj [("template_id", .num u.id), ("options_scope_length", .num u.scopeLen), ("options_length", .num u.optLen),
            ("scope_fields", .arr (u.scope.map (tfieldJ nm.scope c.t.scopeField))),
            ("option_fields", .arr (u.opts.map (tfieldJ nm.v9Field c.t.v9Field)))])) : t = u := by
  cases t; cases u
  simp only [JVal.obj.injEq, List.cons.injEq, Prod.mk.injEq, JVal.num.injEq, Int.natCast_inj, true_and, and_true,
    JVal.arr.injEq] at h
  have h1 := list_map_inj (fun _ _ => tfieldJ_inj) h.2.2.2.1
  have h2 := list_map_inj (fun _ _ => tfieldJ_inj) h.2.2.2.2
  simp [h.1, h.2.1, h.2.2.1, h1, h2]

/-! ### paddings and width tags: what the JSON does not show -/

def padV9 : V9Body → V9Body
  | .templates ts _ => .templates ts []
  | .optTemplates ts _ => .optTemplates ts []
  | .data recs _ => .data recs []
  | .optData ss os _ => .optData ss os []

def padIp : IpBody → IpBody
  | .template t => .template { t with pad := [] }
  | .optTemplate t => .optTemplate { t with pad := [] }
  | .data recs _ => .data recs []
  | .optData recs _ => .optData recs []

/-- every `#[serde(skip_serializing)]` padding set to `[]` -/
def erasePads : Packet → Packet
  | .v9 h ss => .v9 h (ss.map fun s => { s with body := padV9 s.body })
  | .ipfix h ss => .ipfix h (ss.map fun s => { s with body := padIp s.body })
  | p => p

def numV9 : V9Body → V9Body
  | .data recs pad => .data (recs.map normRec) pad
  | b => b

def numIp : IpBody → IpBody
  | .data recs pad => .data (recs.map normRec) pad
  | .optData recs pad => .optData (recs.map normRec) pad
  | b => b

/-- every decoded `DataNumber` replaced by the canonical one of the same value
    (`#[serde(untagged)]`: the JSON number does not show `U8`/`U16`/…) -/
def forgetWidths : Packet → Packet
  | .v9 h ss => .v9 h (ss.map fun s => { s with body := numV9 s.body })
  | .ipfix h ss => .ipfix h (ss.map fun s => { s with body := numIp s.body })
  | p => p

def jnorm (p : Packet) : Packet := forgetWidths (erasePads p)

theorem v9BodyJ_padV9 (c : Config) (nm : JNames) (b : V9Body) : v9BodyJ c nm (padV9 b) = v9BodyJ c nm b := by
  cases b <;> rfl

theorem ipBodyJ_padIp (c : Config) (nm : JNames) (b : IpBody) : ipBodyJ c nm (padIp b) = ipBodyJ c nm b := by
  cases b <;> rfl

theorem v9BodyJ_numV9 (c : Config) (nm : JNames) (b : V9Body) : v9BodyJ c nm (numV9 b) = v9BodyJ c nm b := by
  cases b <;> simp [numV9, v9BodyJ, recJ_normRec]

theorem ipBodyJ_numIp (c : Config) (nm : JNames) (b : IpBody) : ipBodyJ c nm (numIp b) = ipBodyJ c nm b := by
  cases b <;> simp [numIp, ipBodyJ, recJ_normRec]

theorem toJ_erasePads (c : Config) (nm : JNames) (p : Packet) : toJ c nm (erasePads p) = toJ c nm p := by
  cases p <;> simp [erasePads, toJ, v9BodyJ_padV9, ipBodyJ_padIp]

theorem toJ_forgetWidths (c : Config) (nm : JNames) (p : Packet) : toJ c nm (forgetWidths p) = toJ c nm p := by
  cases p <;> simp [forgetWidths, toJ, v9BodyJ_numV9, ipBodyJ_numIp]

theorem toJ_jnorm (c : Config) (nm : JNames) (p : Packet) : toJ c nm (jnorm p) = toJ c nm p := by
  rw [jnorm, toJ_forgetWidths, toJ_erasePads]


/-! ### set bodies -/

/-- name tables injective on their key sets -/
structure NamesOk (nm : JNames) : Prop where
  proto : NameInj nm.proto
  v9Field : NameInj nm.v9Field
  ipField : NameInj nm.ipField

def v9BodyWf (nm : JNames) : V9Body → Bool
  | .data recs _ => recs.all (recWf nm nm.v9Field)
  | .optData ss os _ =>
    ss.all (fun s => [1, 2, 3, 4, 5].contains s.1) && os.all (fun o => (keysOf nm.v9Field).contains o.1)
  | _ => true

def ipBodyWf (nm : JNames) : IpBody → Bool
  | .data recs _ => recs.all (recWf nm nm.ipField)
  | .optData recs _ => recs.all (recWf nm nm.ipField)
  | _ => true

theorem scopeDataName_inj : ∀ a ∈ [1, 2, 3, 4, 5], ∀ b ∈ [1, 2, 3, 4, 5],
    scopeDataName a = scopeDataName b → a = b := by decide

theorem recsJ_inj {nm : JNames} {names : List (Nat × String)} (hp : NameInj nm.proto) (hn : NameInj names)
    {rs ss : List Rec} (hr : rs.all (recWf nm names) = true) (hs : ss.all (recWf nm names) = true)
    (h : rs.map (recJ nm names) = ss.map (recJ nm names)) : rs.map normRec = ss.map normRec := by
  simp only [List.all_eq_true] at hr hs
  exact map_eq_map_of (fun a ha b hb hab => recJ_inj hp hn (hr a ha) (hs b hb) hab) h

theorem v9BodyJ_inj {c : Config} {nm : JNames} (hn : NamesOk nm) {a b : V9Body}
    (ha : v9BodyWf nm a = true) (hb : v9BodyWf nm b = true) (h : v9BodyJ c nm a = v9BodyJ c nm b) :
    numV9 (padV9 a) = numV9 (padV9 b) := by
  cases a <;> cases b <;> simp [v9BodyJ] at h
  case templates.templates ts _ us _ =>
    have := list_map_inj (fun _ _ => v9TemplateJ_inj) h
    simp [padV9, numV9, this]
  case optTemplates.optTemplates ts _ us _ =>
    have := list_map_inj (fun _ _ => v9OptTemplateJ_inj) h
    simp [padV9, numV9, this]
  case data.data rs _ ss _ =>
    simp only [v9BodyWf] at ha hb
    simp [padV9, numV9, recsJ_inj hn.proto hn.v9Field ha hb h]
  case optData.optData s1 o1 _ s2 o2 _ =>
    simp only [v9BodyWf, Bool.and_eq_true, List.all_eq_true, List.contains_iff_mem] at ha hb
    have e1 : s1.map id = s2.map id := by
      refine map_eq_map_of ?_ h.1
      intro x hx y hy hxy
      obtain ⟨x1, x2⟩ := x
      obtain ⟨y1, y2⟩ := y
      simp only [JVal.obj.injEq, List.cons.injEq, Prod.mk.injEq, and_true] at hxy
      have := scopeDataName_inj _ (ha.1 _ hx) _ (hb.1 _ hy) hxy.1
      simp only at this
      simp [this, bytesJ_inj hxy.2]
    have e2 : o1.map id = o2.map id := by
      refine map_eq_map_of ?_ h.2
      intro x hx y hy hxy
      obtain ⟨x1, x2⟩ := x
      obtain ⟨y1, y2⟩ := y
      simp only [JVal.obj.injEq, List.cons.injEq, Prod.mk.injEq, true_and, and_true] at hxy
      have := hn.v9Field _ (ha.2 _ hx) _ (hb.2 _ hy) hxy.1
      simp only at this
      simp [this, bytesJ_inj hxy.2]
    simp only [List.map_id] at e1 e2
    simp [padV9, numV9, e1, e2]

theorem ipBodyJ_inj {c : Config} {nm : JNames} (hn : NamesOk nm) {a b : IpBody}
    (ha : ipBodyWf nm a = true) (hb : ipBodyWf nm b = true) (h : ipBodyJ c nm a = ipBodyJ c nm b) :
    numIp (padIp a) = numIp (padIp b) := by
  cases a <;> cases b <;> simp [ipBodyJ] at h
  case template.template t u =>
    cases t; cases u
    simp only [Int.natCast_inj] at h
    have := list_map_inj (fun _ _ => ipTFieldJ_inj) h.2.2
    simp [padIp, numIp, h.1, h.2.1, this]
  case optTemplate.optTemplate t u =>
    cases t; cases u
    simp only [Int.natCast_inj] at h
    have := list_map_inj (fun _ _ => ipTFieldJ_inj) h.2.2.2
    simp [padIp, numIp, h.1, h.2.1, h.2.2.1, this]
  case data.data rs _ ss _ =>
    simp only [ipBodyWf] at ha hb
    simp [padIp, numIp, recsJ_inj hn.proto hn.ipField ha hb h]
  case optData.optData rs _ ss _ =>
    simp only [ipBodyWf] at ha hb
    simp [padIp, numIp, recsJ_inj hn.proto hn.ipField ha hb h]

theorem errKindJ_inj {a b : ErrKind} (h : errKindJ a = errKindJ b) : a = b := by
  cases a <;> cases b <;> simp [errKindJ] at h
  · rfl
  · simp only [Int.natCast_inj] at h; simp [h.1, bytesJ_inj h.2]
  · simp [bytesJ_inj h]


/-! ### whole packets -/

def pktWf (c : Config) (nm : JNames) : Packet → Bool
  | .v5 h rs => layoutWf nm c.t.v5Hdr h && rs.all (layoutWf nm c.t.v5Rec)
  | .v7 h rs => layoutWf nm c.t.v7Hdr h && rs.all (layoutWf nm c.t.v7Rec)
  | .v9 h ss => layoutWf nm c.t.v9Hdr h && ss.all fun s => v9BodyWf nm s.body
  | .ipfix h ss => layoutWf nm c.t.ipHdr h && ss.all fun s => ipBodyWf nm s.body
  | .error _ _ => true

theorem toJ_inj {c : Config} {nm : JNames} (hn : NamesOk nm) {p q : Packet}
    (hp : pktWf c nm p = true) (hq : pktWf c nm q = true) (h : toJ c nm p = toJ c nm q) : jnorm p = jnorm q := by
  cases p <;> cases q <;> simp [toJ] at h
  case v5.v5 h1 r1 h2 r2 =>
    simp only [pktWf, Bool.and_eq_true, List.all_eq_true] at hp hq
    have e1 := layoutJ_inj hn.proto hp.1 hq.1 h.1
    have e2 : r1.map id = r2.map id :=
      map_eq_map_of (fun a ha b hb hab => layoutJ_inj hn.proto (hp.2 a ha) (hq.2 b hb) hab) h.2
    simp only [List.map_id] at e2
    rw [e1, e2]
  case v7.v7 h1 r1 h2 r2 =>
    simp only [pktWf, Bool.and_eq_true, List.all_eq_true] at hp hq
    have e1 := layoutJ_inj hn.proto hp.1 hq.1 h.1
    have e2 : r1.map id = r2.map id :=
      map_eq_map_of (fun a ha b hb hab => layoutJ_inj hn.proto (hp.2 a ha) (hq.2 b hb) hab) h.2
    simp only [List.map_id] at e2
    rw [e1, e2]
  case v9.v9 h1 s1 h2 s2 =>
    simp only [pktWf, Bool.and_eq_true, List.all_eq_true] at hp hq
    have e1 := layoutJ_inj hn.proto hp.1 hq.1 h.1
    have e2 : s1.map (fun s => ({ s with body := numV9 (padV9 s.body) } : V9Set)) =
              s2.map (fun s => ({ s with body := numV9 (padV9 s.body) } : V9Set)) := by
      refine map_eq_map_of ?_ h.2
      intro a ha b hb hab
      obtain ⟨i1, l1, b1⟩ := a
      obtain ⟨i2, l2, b2⟩ := b
      simp only [JVal.obj.injEq, List.cons.injEq, Prod.mk.injEq, JVal.num.injEq, Int.natCast_inj, true_and, and_true] at hab
      have := v9BodyJ_inj hn (hp.2 _ ha) (hq.2 _ hb) hab.2
      simp only at this
      simp [hab.1.1, hab.1.2, this]
    simp only [jnorm, erasePads, forgetWidths, List.map_map, Function.comp_def, e1]
    simpa using e2
  case ipfix.ipfix h1 s1 h2 s2 =>
    simp only [pktWf, Bool.and_eq_true, List.all_eq_true] at hp hq
    have e1 := layoutJ_inj hn.proto hp.1 hq.1 h.1
    have e2 : s1.map (fun s => ({ s with body := numIp (padIp s.body) } : IpSet)) =
              s2.map (fun s => ({ s with body := numIp (padIp s.body) } : IpSet)) := by
      refine map_eq_map_of ?_ h.2
      intro a ha b hb hab
      obtain ⟨i1, l1, b1⟩ := a
      obtain ⟨i2, l2, b2⟩ := b
      simp only [JVal.obj.injEq, List.cons.injEq, Prod.mk.injEq, JVal.num.injEq, Int.natCast_inj, true_and, and_true] at hab
      have := ipBodyJ_inj hn (hp.2 _ ha) (hq.2 _ hb) hab.2
      simp only at this
      simp [hab.1.1, hab.1.2, this]
    simp only [jnorm, erasePads, forgetWidths, List.map_map, Function.comp_def, e1]
    simpa using e2
  case error.error k1 r1 k2 r2 =>
    rw [errKindJ_inj h.1, bytesJ_inj h.2]

/-! ### records: entries in template order -/

theorem v9ParseRec_shape (c : Config) : ∀ (fields : List TField) (idx : Nat) (i : Bytes) (rec : Rec) (r : Bytes),
    v9ParseRec c fields idx i = some (rec, r) →
    rec.map (·.1) = List.range' idx fields.length ∧ rec.map (·.2.1) = fields.map fun f => c.t.v9Field f.typ := by
  intro fields
  induction fields with
  | nil =>
    intro idx i rec r h
    simp only [v9ParseRec, Option.some.injEq, Prod.mk.injEq] at h
    simp [← h.1]
  | cons f fs ih =>
    intro idx i rec r h
    unfold v9ParseRec at h
    cases hv : parseValue c.vc (c.t.v9Ty (c.t.v9Field f.typ)) f.len i with
    | none => simp [hv] at h
    | some vr =>
      obtain ⟨v, r1⟩ := vr
      simp only [hv] at h
      cases hr : v9ParseRec c fs (idx + 1) r1 with
      | none => simp [hr] at h
      | some er =>
        obtain ⟨es, r2⟩ := er
        simp only [hr, Option.some.injEq, Prod.mk.injEq] at h
        obtain ⟨h1, h2⟩ := ih _ _ _ _ hr
        simp [← h.1, h1, h2, List.range'_succ]

theorem ipParseRec_shape (c : Config) : ∀ (fields : List IpTField) (idx : Nat) (i : Bytes) (recs : List Rec) (r : Bytes),
    ipParseRec c fields idx i = some (recs, r) →
    recs.map (fun m => m.map (·.1)) = (List.range' idx fields.length).map (fun k => [k]) ∧
    recs.map (fun m => m.map (·.2.1)) = fields.map fun f => [ipFieldDisc c f] := by
  intro fields
  induction fields with
  | nil =>
    intro idx i rec r h
    simp only [ipParseRec, Option.some.injEq, Prod.mk.injEq] at h
    simp [← h.1]
  | cons f fs ih =>
    intro idx i rec r h
    unfold ipParseRec at h
    cases hv : ipParseValue c f i with
    | none => simp [hv] at h
    | some vr =>
      obtain ⟨v, r1⟩ := vr
      simp only [hv] at h
      cases hr : ipParseRec c fs (idx + 1) r1 with
      | none => simp [hr] at h
      | some er =>
        obtain ⟨es, r2⟩ := er
        simp only [hr, Option.some.injEq, Prod.mk.injEq] at h
        obtain ⟨h1, h2⟩ := ih _ _ _ _ hr
        simp [← h.1, h1, h2, List.range'_succ]

/-- member names of a JSON object, in order -/
def jKeys : JVal → List String
  | .obj kvs => kvs.map (·.1)
  | _ => []

theorem jKeys_recJ (nm : JNames) (names : List (Nat × String)) (r : Rec) :
    jKeys (recJ nm names r) = (r.map (·.1)).map toString := by
  simp [jKeys, recJ]

theorem toString_keys_nodup (n : Nat) : ((List.range n).map (toString : Nat → String)).Nodup := by
  refine List.Pairwise.map _ (fun a b hab he => hab (toString_nat_inj he)) List.nodup_range

/-- records in a V9 data body all come from the same template: keys `0..n-1` in order -/
def V9KeysOk : V9Body → Prop
  | .data recs _ => ∃ n, ∀ rec ∈ recs, rec.map (·.1) = List.range n
  | _ => True

/-- the k-th block of `n` consecutive single-entry maps has keys `0, 1, …, n-1` -/
def ipBlocks (n k : Nat) : List (List Nat) := (List.replicate k ((List.range n).map fun j => [j])).flatten

def IpKeysOk : IpBody → Prop
  | .data recs _ => ∃ n k, recs.map (fun m => m.map (·.1)) = ipBlocks n k
  | .optData recs _ => ∃ n k, recs.map (fun m => m.map (·.1)) = ipBlocks n k
  | _ => True

theorem v9RecLoop_all (c : Config) (fs : List TField) (P : Rec → Prop)
    (hP : ∀ i rec r, v9ParseRec c fs 0 i = some (rec, r) → P rec) :
    ∀ (n : Nat) (i : Bytes) (acc : List Rec), (∀ x ∈ acc, P x) → ∀ x ∈ (v9RecLoop c fs n i acc).1, P x := by
  intro n
  induction n with
  | zero => intro i acc h; simpa [v9RecLoop] using h
  | succ n ih =>
    intro i acc h
    unfold v9RecLoop
    cases hr : v9ParseRec c fs 0 i with
    | none => exact ih i acc h
    | some rr =>
      obtain ⟨rec, r⟩ := rr
      apply ih
      intro x hx
      rcases List.mem_append.mp hx with hx | hx
      · exact h x hx
      · simp only [List.mem_singleton] at hx; subst hx; exact hP _ _ _ hr

theorem v9ParseBody_keys (c : Config) (st st' : PState) (id : Nat) (body : Bytes) (b : V9Body)
    (h : v9ParseBody c st id body = (st', .ok b)) : V9KeysOk b := by
  unfold v9ParseBody at h
  repeat' split at h
  all_goals simp only [Prod.mk.injEq, Res.ok.injEq, reduceCtorEq, and_false] at h
  all_goals try (obtain ⟨_, rfl⟩ := h; trivial)
  next t _ =>
    split at h
    · simp at h
    · simp only [Prod.mk.injEq, Res.ok.injEq] at h
      obtain ⟨_, rfl⟩ := h
      refine ⟨t.fields.length, ?_⟩
      apply v9RecLoop_all c t.fields (fun rec => rec.map (·.1) = List.range t.fields.length)
      · intro i rec r hr
        rw [(v9ParseRec_shape c _ _ _ _ _ hr).1, List.range_eq_range']
      · simp

theorem ipBlocks_succ (n k : Nat) : ipBlocks n (k + 1) = ((List.range n).map fun j => [j]) ++ ipBlocks n k := by
  simp [ipBlocks, List.replicate_succ]

theorem ipRecLoop_keys (c : Config) (fs : List IpTField) : ∀ (fuel : Nat) (i : Bytes) (recs : List Rec) (r : Bytes),
    ipRecLoop c fs fuel i = .ok (recs, r) → ∃ k, recs.map (fun m => m.map (·.1)) = ipBlocks fs.length k := by
  intro fuel
  induction fuel with
  | zero => intro i recs r h; simp [ipRecLoop] at h
  | succ fuel ih =>
    intro i recs r h
    unfold ipRecLoop at h
    cases hp : ipParseRec c fs 0 i with
    | none => simp [hp] at h
    | some er =>
      obtain ⟨es, r1⟩ := er
      have hes := (ipParseRec_shape c _ _ _ _ _ hp).1
      rw [← List.range_eq_range'] at hes
      have one : ∃ k, es.map (fun m => m.map (·.1)) = ipBlocks fs.length k := ⟨1, by rw [hes]; simp [ipBlocks]⟩
      simp only [hp] at h
      split at h
      · simp only [Res.ok.injEq, Prod.mk.injEq] at h; rw [← h.1]; exact one
      · split at h
        · cases hr : ipRecLoop c fs fuel r1 with
          | ok mr =>
            obtain ⟨more, r2⟩ := mr
            simp only [hr, Res.ok.injEq, Prod.mk.injEq] at h
            obtain ⟨k, hk⟩ := ih _ _ _ hr
            refine ⟨k + 1, ?_⟩
            rw [← h.1, List.map_append, hes, hk, ipBlocks_succ]
          | err => simp [hr] at h
          | panic => simp [hr] at h
          | overflow => simp [hr] at h
        · simp only [Res.ok.injEq, Prod.mk.injEq] at h; rw [← h.1]; exact one

theorem ipParseBody_keys (c : Config) (st st' : PState) (id : Nat) (body : Bytes) (b : IpBody)
    (h : ipParseBody c st id body = (st', .ok b)) : IpKeysOk b := by
  unfold ipParseBody at h
  repeat' split at h
  all_goals simp only [Prod.mk.injEq, Res.ok.injEq, reduceCtorEq, and_false] at h
  all_goals try (obtain ⟨_, rfl⟩ := h; trivial)
  · next t _ _ _ _ heq =>
      obtain ⟨_, rfl⟩ := h
      obtain ⟨k, hk⟩ := ipRecLoop_keys c _ _ _ _ _ heq
      exact ⟨_, k, hk⟩
  · next t _ _ _ _ heq =>
      obtain ⟨_, rfl⟩ := h
      obtain ⟨k, hk⟩ := ipRecLoop_keys c _ _ _ _ _ heq
      exact ⟨_, k, hk⟩

/-- every packet `parseBytes` returns has its data records keyed in template order -/
theorem parseBytes_keys (c : Config) (st st' : PState) (buf : Bytes) (ps : List Packet)
    (h : parseBytes c st buf = (st', .done ps)) : ∀ p ∈ ps, PktAll V9KeysOk IpKeysOk p :=
  parseBytesF_all (v9ParseBody_keys c) (ipParseBody_keys c) _ _ _ _ _ h

/-! ### every parse result is well formed for name tables that cover the crate's enum conversions -/

def lfieldOk (nm : JNames) (f : LField) : Bool :=
  match f.kind with
  | .wire w => !(nm.ipv4Fields.contains f.name) || decide (w ≤ 4)
  | .const v => !(nm.ipv4Fields.contains f.name) || decide (v < 2 ^ 32)
  | .protoOf _ => true

/-- `Ipv4Addr`-typed struct fields are at most 4 bytes wide -/
def layoutOk (nm : JNames) (lay : Layout) : Bool := lay.all (lfieldOk nm)

/-- the name tables have an entry for every discriminant the parser can produce, and the struct layouts
    are sane -/
structure TablesCover (c : Config) (nm : JNames) : Prop where
  protoFrom : ∀ x, c.t.protoFromU8 x ∈ keysOf nm.proto
  protoParse : ∀ x p, c.t.protoParse x = some p → p ∈ keysOf nm.proto
  v9Field : ∀ x, c.t.v9Field x ∈ keysOf nm.v9Field
  ipField : ∀ x, c.t.ipField x ∈ keysOf nm.ipField
  ipEnt : c.t.ipEnterprise ∈ keysOf nm.ipField
  scope : ∀ x, c.t.scopeKnown x = true → c.t.scopeField x ∈ [1, 2, 3, 4, 5]
  v5Hdr : layoutOk nm c.t.v5Hdr = true
  v5Rec : layoutOk nm c.t.v5Rec = true
  v7Hdr : layoutOk nm c.t.v7Hdr = true
  v7Rec : layoutOk nm c.t.v7Rec = true
  v9Hdr : layoutOk nm c.t.v9Hdr = true
  ipHdr : layoutOk nm c.t.ipHdr = true

theorem beNat_foldl (bs : Bytes) (acc : Nat) :
    bs.foldl (fun acc b => acc * 256 + b.toNat) acc = acc * 256 ^ bs.length + beNat bs := by
  induction bs generalizing acc with
  | nil => simp [beNat]
  | cons b bs ih =>
    simp only [List.foldl_cons, List.length_cons, beNat]
    rw [ih, ih (0 * 256 + b.toNat), Nat.pow_succ]
    generalize 256 ^ bs.length = P
    generalize beNat bs = x
    grind

theorem beNat_lt (bs : Bytes) : beNat bs < 256 ^ bs.length := by
  induction bs with
  | nil => simp [beNat]
  | cons b bs ih =>
    have h : beNat (b :: bs) = b.toNat * 256 ^ bs.length + beNat bs := by
      simp only [beNat, List.foldl_cons]
      rw [beNat_foldl]; simp [beNat]
    rw [h, List.length_cons, Nat.pow_succ]
    have hb : b.toNat < 256 := UInt8.toNat_lt b
    generalize 256 ^ bs.length = P at *
    have : b.toNat * P + P ≤ 256 * P := by
      have : (b.toNat + 1) * P ≤ 256 * P := Nat.mul_le_mul_right P (by omega)
      rw [Nat.add_mul] at this; omega
    omega

theorem beU_lt {w : Nat} {i r : Bytes} {v : Nat} (h : beU w i = some (v, r)) : v < 256 ^ w := by
  unfold beU at h
  split at h
  · next hw =>
    simp only [Option.some.injEq, Prod.mk.injEq] at h
    have := beNat_lt (i.take w)
    rw [List.length_take, Nat.min_eq_left hw] at this
    rw [← h.1]; exact this
  · simp at h

theorem parseFields_wf {nm : JNames} {proto : Nat → Nat} (hpr : ∀ x, proto x ∈ keysOf nm.proto) :
    ∀ (lay : Layout) (acc : List Nat) (i : Bytes) (vals : List Nat) (r : Bytes), layoutOk nm lay = true →
      parseFields proto lay acc i = some (vals, r) →
      ∃ d, vals = acc ++ d ∧ d.length = lay.length ∧ ((lay.zip d).all fun p => lfieldWf nm p.1 p.2) = true := by
  intro lay
  induction lay with
  | nil => intro acc i vals r _ h; simp [parseFields] at h; exact ⟨[], by simp [h.1]⟩
  | cons f fs ih =>
    intro acc i vals r hl h
    simp only [layoutOk, List.all_cons, Bool.and_eq_true] at hl
    have hl2 : layoutOk nm fs = true := hl.2
    have hl1 := hl.1
    unfold lfieldOk at hl1
    unfold parseFields at h
    cases hk : f.kind with
    | wire w =>
      simp only [hk] at h hl1
      cases hb : beU w i with
      | none => simp [hb] at h
      | some vr =>
        obtain ⟨v, r1⟩ := vr
        simp only [hb] at h
        obtain ⟨d, hd, hlen, hall⟩ := ih _ _ _ _ hl2 h
        refine ⟨v :: d, by simp [hd], by simp [hlen], ?_⟩
        rw [List.zip_cons_cons, List.all_cons, hall, Bool.and_true]
        show lfieldWf nm f v = true
        unfold lfieldWf
        simp only [hk, Bool.or_eq_true, Bool.not_eq_eq_eq_not, Bool.not_true, decide_eq_true_eq] at hl1 ⊢
        rcases hl1 with h1 | h1
        · exact Or.inl h1
        · right
          have := beU_lt hb
          have h2 : 256 ^ w ≤ 256 ^ 4 := Nat.pow_le_pow_right (by decide) h1
          omega
    | const v =>
      simp only [hk] at h hl1
      obtain ⟨d, hd, hlen, hall⟩ := ih _ _ _ _ hl2 h
      refine ⟨v :: d, by simp [hd], by simp [hlen], ?_⟩
      rw [List.zip_cons_cons, List.all_cons, hall, Bool.and_true]
      show lfieldWf nm f v = true
      unfold lfieldWf
      simp only [hk]
      exact hl1
    | protoOf s =>
      simp only [hk] at h
      obtain ⟨d, hd, hlen, hall⟩ := ih _ _ _ _ hl2 h
      refine ⟨proto (acc.getD s 0) :: d, by simp [hd], by simp [hlen], ?_⟩
      rw [List.zip_cons_cons, List.all_cons, hall, Bool.and_true]
      show lfieldWf nm f _ = true
      unfold lfieldWf
      simp only [hk, List.contains_iff_mem]
      exact hpr _

theorem parseLayout_wf {nm : JNames} {proto : Nat → Nat} (hpr : ∀ x, proto x ∈ keysOf nm.proto)
    {lay : Layout} (hl : layoutOk nm lay = true) {i : Bytes} {vals : List Nat} {r : Bytes}
    (h : parseLayout proto lay i = some (vals, r)) : layoutWf nm lay vals = true := by
  obtain ⟨d, hd, hlen, hall⟩ := parseFields_wf hpr lay [] i vals r hl h
  simp only [List.nil_append] at hd
  subst hd
  simp [layoutWf, hlen, hall]

theorem countP_all {α : Type} {p : P α} {Q : α → Prop} (hQ : ∀ i a r, p i = some (a, r) → Q a) :
    ∀ (n : Nat) (i : Bytes) (xs : List α) (r : Bytes), countP p n i = some (xs, r) → ∀ x ∈ xs, Q x := by
  intro n
  induction n with
  | zero =>
    intro i xs r h
    simp only [countP, Option.some.injEq, Prod.mk.injEq] at h
    rw [← h.1]; intro x hx; simp at hx
  | succ n ih =>
    intro i xs r h
    unfold countP at h
    cases hp : p i with
    | none => simp [hp] at h
    | some ar =>
      obtain ⟨a, r1⟩ := ar
      simp only [hp] at h
      cases hc : countP p n r1 with
      | none => simp [hc] at h
      | some asr =>
        obtain ⟨as, r2⟩ := asr
        simp only [hc, Option.some.injEq, Prod.mk.injEq] at h
        rw [← h.1]
        intro x hx
        rcases List.mem_cons.mp hx with rfl | hx
        · exact hQ _ _ _ hp
        · exact ih _ _ _ hc x hx

theorem parseFixed_wf {c : Config} {nm : JNames} (hpr : ∀ x, c.t.protoFromU8 x ∈ keysOf nm.proto)
    {hdr rec : Layout} (hh : layoutOk nm hdr = true) (hr : layoutOk nm rec = true)
    {i : Bytes} {h : List Nat} {rs : List (List Nat)} {r : Bytes}
    (hp : parseFixed c hdr rec i = some ((h, rs), r)) :
    layoutWf nm hdr h = true ∧ rs.all (layoutWf nm rec) = true := by
  unfold parseFixed at hp
  cases h1 : parseLayout c.t.protoFromU8 hdr i with
  | none => simp [h1] at hp
  | some hr1 =>
    obtain ⟨h', r1⟩ := hr1
    simp only [h1] at hp
    cases h2 : countP (parseLayout c.t.protoFromU8 rec) (hdr.get "count" h') r1 with
    | none => simp [h2] at hp
    | some rr =>
      obtain ⟨recs, r2⟩ := rr
      simp only [h2, Option.some.injEq, Prod.mk.injEq] at hp
      obtain ⟨⟨e1, e2⟩, _⟩ := hp
      subst e1 e2
      refine ⟨parseLayout_wf hpr hh h1, ?_⟩
      rw [List.all_eq_true]
      exact countP_all (Q := fun x => layoutWf nm rec x = true) (fun _ _ _ hx => parseLayout_wf hpr hr hx) _ _ _ _ h2


theorem parseValue_wf {c : Config} {nm : JNames} (hpp : ∀ x p, c.t.protoParse x = some p → p ∈ keysOf nm.proto)
    {ty : FType} {len : Nat} {i : Bytes} {v : FieldValue} {r : Bytes}
    (h : parseValue c.vc ty len i = some (v, r)) : fvWf nm v = true := by
  unfold parseValue at h
  cases ty <;> simp only at h
  case ip4 =>
    cases hb : beU 4 i with
    | none => simp [hb] at h
    | some x =>
      simp only [hb, Option.some.injEq, Prod.mk.injEq] at h
      have := beU_lt hb
      rw [← h.1]; simp only [fvWf, decide_eq_true_eq]; omega
  case ip6 =>
    cases hb : beU 16 i with
    | none => simp [hb] at h
    | some x =>
      simp only [hb, Option.some.injEq, Prod.mk.injEq] at h
      have := beU_lt hb
      rw [← h.1]; simp only [fvWf, decide_eq_true_eq]; omega
  case proto =>
    cases hb : beU 1 i with
    | none => simp [hb] at h
    | some x =>
      simp only [hb] at h
      cases hq : c.vc.protoParse x.1 with
      | none => simp [hq] at h
      | some p =>
        simp only [hq, Option.some.injEq, Prod.mk.injEq] at h
        rw [← h.1]; simp only [fvWf, List.contains_iff_mem]
        exact hpp _ _ hq
  all_goals
    repeat' split at h
    all_goals first
      | (simp only [Option.some.injEq, Prod.mk.injEq, reduceCtorEq] at h; obtain ⟨rfl, _⟩ := h; rfl)
      | simp at h


theorem v9ParseRec_wf {c : Config} {nm : JNames} (hc : TablesCover c nm) :
    ∀ (fields : List TField) (idx : Nat) (i : Bytes) (rec : Rec) (r : Bytes),
      v9ParseRec c fields idx i = some (rec, r) → recWf nm nm.v9Field rec = true := by
  intro fields
  induction fields with
  | nil =>
    intro idx i rec r h
    simp only [v9ParseRec, Option.some.injEq, Prod.mk.injEq] at h
    rw [← h.1]; rfl
  | cons f fs ih =>
    intro idx i rec r h
    unfold v9ParseRec at h
    cases hv : parseValue c.vc (c.t.v9Ty (c.t.v9Field f.typ)) f.len i with
    | none => simp [hv] at h
    | some vr =>
      obtain ⟨v, r1⟩ := vr
      simp only [hv] at h
      cases hr : v9ParseRec c fs (idx + 1) r1 with
      | none => simp [hr] at h
      | some er =>
        obtain ⟨es, r2⟩ := er
        simp only [hr, Option.some.injEq, Prod.mk.injEq] at h
        have h1 := ih _ _ _ _ hr
        rw [← h.1]
        simp only [recWf, List.all_cons, Bool.and_eq_true, List.contains_iff_mem] at h1 ⊢
        exact ⟨⟨hc.v9Field _, parseValue_wf hc.protoParse hv⟩, h1⟩

theorem ipParseValue_wf {c : Config} {nm : JNames} (hc : TablesCover c nm) {f : IpTField} {i : Bytes}
    {v : FieldValue} {r : Bytes} (h : ipParseValue c f i = some (v, r)) : fvWf nm v = true := by
  unfold ipParseValue at h
  cases hl : ipFieldLength f i with
  | none => simp [hl] at h
  | some lr =>
    obtain ⟨len, r1⟩ := lr
    simp only [hl] at h
    cases he : f.ent with
    | some e =>
      simp only [he] at h
      cases ht : takeN len r1 with
      | none => simp [ht] at h
      | some br =>
        simp only [ht, Option.some.injEq, Prod.mk.injEq] at h
        rw [← h.1]; rfl
    | none =>
      simp only [he] at h
      exact parseValue_wf hc.protoParse h

theorem ipFieldDisc_mem {c : Config} {nm : JNames} (hc : TablesCover c nm) (f : IpTField) :
    ipFieldDisc c f ∈ keysOf nm.ipField := by
  unfold ipFieldDisc
  cases f.ent with
  | some e => exact hc.ipEnt
  | none => exact hc.ipField _

theorem ipParseRec_wf {c : Config} {nm : JNames} (hc : TablesCover c nm) :
    ∀ (fields : List IpTField) (idx : Nat) (i : Bytes) (recs : List Rec) (r : Bytes),
      ipParseRec c fields idx i = some (recs, r) → recs.all (recWf nm nm.ipField) = true := by
  intro fields
  induction fields with
  | nil =>
    intro idx i recs r h
    simp only [ipParseRec, Option.some.injEq, Prod.mk.injEq] at h
    rw [← h.1]; rfl
  | cons f fs ih =>
    intro idx i recs r h
    unfold ipParseRec at h
    cases hv : ipParseValue c f i with
    | none => simp [hv] at h
    | some vr =>
      obtain ⟨v, r1⟩ := vr
      simp only [hv] at h
      cases hr : ipParseRec c fs (idx + 1) r1 with
      | none => simp [hr] at h
      | some er =>
        obtain ⟨es, r2⟩ := er
        simp only [hr, Option.some.injEq, Prod.mk.injEq] at h
        have h1 := ih _ _ _ _ hr
        rw [← h.1]
        simp only [List.all_cons, Bool.and_eq_true, h1, recWf, Bool.and_true, List.contains_iff_mem,
          List.all_nil]
        exact ⟨ipFieldDisc_mem hc f, ipParseValue_wf hc hv⟩

theorem ipRecLoop_wf {c : Config} {nm : JNames} (hc : TablesCover c nm) (fs : List IpTField) :
    ∀ (fuel : Nat) (i : Bytes) (recs : List Rec) (r : Bytes),
      ipRecLoop c fs fuel i = .ok (recs, r) → recs.all (recWf nm nm.ipField) = true := by
  intro fuel
  induction fuel with
  | zero => intro i recs r h; simp [ipRecLoop] at h
  | succ fuel ih =>
    intro i recs r h
    unfold ipRecLoop at h
    cases hp : ipParseRec c fs 0 i with
    | none => simp [hp] at h
    | some er =>
      obtain ⟨es, r1⟩ := er
      have hes := ipParseRec_wf hc _ _ _ _ _ hp
      simp only [hp] at h
      split at h
      · simp only [Res.ok.injEq, Prod.mk.injEq] at h; rw [← h.1]; exact hes
      · split at h
        · cases hr : ipRecLoop c fs fuel r1 with
          | ok mr =>
            obtain ⟨more, r2⟩ := mr
            simp only [hr, Res.ok.injEq, Prod.mk.injEq] at h
            rw [← h.1, List.all_append, hes, ih _ _ _ hr]; rfl
          | err => simp [hr] at h
          | panic => simp [hr] at h
          | overflow => simp [hr] at h
        · simp only [Res.ok.injEq, Prod.mk.injEq] at h; rw [← h.1]; exact hes

theorem v9ScopeLoop_wf {c : Config} {nm : JNames} (hc : TablesCover c nm) :
    ∀ (fs : List TField) (i : Bytes) (ss : List (Nat × Bytes)) (r : Bytes),
      v9ScopeLoop c fs i = some (ss, r) → ss.all (fun s => [1, 2, 3, 4, 5].contains s.1) = true := by
  intro fs
  induction fs with
  | nil => intro i ss r h; simp only [v9ScopeLoop, Option.some.injEq, Prod.mk.injEq] at h; rw [← h.1]; rfl
  | cons f fs ih =>
    intro i ss r h
    unfold v9ScopeLoop at h
    cases ht : takeN f.len i with
    | none => simp only [ht, Option.some.injEq, Prod.mk.injEq] at h; rw [← h.1]; rfl
    | some vr =>
      obtain ⟨v, r1⟩ := vr
      simp only [ht] at h
      by_cases hk : c.t.scopeKnown f.typ = true
      · simp only [hk, ↓reduceIte] at h
        split at h
        · simp at h
        · cases hr : v9ScopeLoop c fs r1 with
          | none => simp [hr] at h
          | some x =>
            obtain ⟨vs, r2⟩ := x
            simp only [hr, Option.some.injEq, Prod.mk.injEq] at h
            rw [← h.1, List.all_cons, ih _ _ _ hr, Bool.and_true, List.contains_iff_mem]
            exact hc.scope _ hk
      · simp only [hk, Bool.false_eq_true, ↓reduceIte, Option.some.injEq, Prod.mk.injEq] at h
        rw [← h.1]; rfl

theorem v9OptLoop_wf {c : Config} {nm : JNames} (hc : TablesCover c nm) :
    ∀ (fs : List TField) (i : Bytes) (os : List (Nat × Bytes)) (r : Bytes),
      v9OptLoop c fs i = some (os, r) → os.all (fun o => (keysOf nm.v9Field).contains o.1) = true := by
  intro fs
  induction fs with
  | nil => intro i ss r h; simp only [v9OptLoop, Option.some.injEq, Prod.mk.injEq] at h; rw [← h.1]; rfl
  | cons f fs ih =>
    intro i ss r h
    unfold v9OptLoop at h
    cases ht : takeN f.len i with
    | none => simp only [ht, Option.some.injEq, Prod.mk.injEq] at h; rw [← h.1]; rfl
    | some vr =>
      obtain ⟨v, r1⟩ := vr
      simp only [ht] at h
      split at h
      · simp at h
      · cases hr : v9OptLoop c fs r1 with
        | none => simp [hr] at h
        | some x =>
          obtain ⟨vs, r2⟩ := x
          simp only [hr, Option.some.injEq, Prod.mk.injEq] at h
          rw [← h.1, List.all_cons, ih _ _ _ hr, Bool.and_true, List.contains_iff_mem]
          exact hc.v9Field _


theorem v9ParseBody_wf' {c : Config} {nm : JNames} (hc : TablesCover c nm) (st st' : PState) (id : Nat) (body : Bytes)
    (b : V9Body) (h : v9ParseBody c st id body = (st', .ok b)) : v9BodyWf nm b = true := by
  unfold v9ParseBody at h
  repeat' split at h
  all_goals simp only [Prod.mk.injEq, Res.ok.injEq, reduceCtorEq, and_false] at h
  all_goals try (obtain ⟨_, rfl⟩ := h; rfl)
  · next ot _ _ ss r1 hs _ os pad ho =>
    obtain ⟨_, rfl⟩ := h
    simp only [v9BodyWf, Bool.and_eq_true]
    exact ⟨v9ScopeLoop_wf hc _ _ _ _ hs, v9OptLoop_wf hc _ _ _ _ ho⟩
  · next t _ =>
    split at h
    · simp at h
    · simp only [Prod.mk.injEq, Res.ok.injEq] at h
      obtain ⟨_, rfl⟩ := h
      simp only [v9BodyWf, List.all_eq_true]
      apply v9RecLoop_all c t.fields (fun rec => recWf nm nm.v9Field rec = true)
      · intro i rec r hr
        exact v9ParseRec_wf hc _ _ _ _ _ hr
      · simp

theorem ipParseBody_wf' {c : Config} {nm : JNames} (hc : TablesCover c nm) (st st' : PState) (id : Nat) (body : Bytes)
    (b : IpBody) (h : ipParseBody c st id body = (st', .ok b)) : ipBodyWf nm b = true := by
  unfold ipParseBody at h
  repeat' split at h
  all_goals simp only [Prod.mk.injEq, Res.ok.injEq, reduceCtorEq, and_false] at h
  all_goals try (obtain ⟨_, rfl⟩ := h; rfl)
  · next t _ _ _ _ heq =>
      obtain ⟨_, rfl⟩ := h
      exact ipRecLoop_wf hc _ _ _ _ _ heq
  · next t _ _ _ _ heq =>
      obtain ⟨_, rfl⟩ := h
      exact ipRecLoop_wf hc _ _ _ _ _ heq

theorem parseV9_wf {c : Config} {nm : JNames} (hc : TablesCover c nm) (st st' : PState) (i : Bytes) (p : Packet) (r : Bytes)
    (h : parseV9 c st i = (st', .ok (p, r))) : pktWf c nm p = true := by
  unfold parseV9 at h
  cases hl : parseLayout c.t.protoFromU8 c.t.v9Hdr i with
  | none => simp [hl] at h
  | some hr =>
    obtain ⟨hd, r1⟩ := hr
    simp only [hl] at h
    cases hs : v9ParseSets c (c.t.v9Hdr.get "count" hd) st r1 with
    | mk st1 res =>
      cases res with
      | ok x =>
        obtain ⟨ss, r2⟩ := x
        simp only [hs, Prod.mk.injEq, Res.ok.injEq] at h
        obtain ⟨_, rfl, _⟩ := h
        have := v9ParseSets_all (Q9 := fun b => v9BodyWf nm b = true) (v9ParseBody_wf' hc) _ _ _ _ _ _ hs
        simp only [pktWf, Bool.and_eq_true, List.all_eq_true]
        exact ⟨parseLayout_wf hc.protoFrom hc.v9Hdr hl, this⟩
      | err => simp [hs] at h
      | panic => simp [hs] at h
      | overflow => simp [hs] at h

theorem parseIpfix_wf {c : Config} {nm : JNames} (hc : TablesCover c nm) (st st' : PState) (i : Bytes) (p : Packet) (r : Bytes)
    (h : parseIpfix c st i = (st', .ok (p, r))) : pktWf c nm p = true := by
  unfold parseIpfix at h
  cases hl : parseLayout c.t.protoFromU8 c.t.ipHdr i with
  | none => simp [hl] at h
  | some hr =>
    obtain ⟨hd, r1⟩ := hr
    simp only [hl] at h
    cases ht : takeN (c.t.ipHdr.get "length" hd - 16) r1 with
    | none => simp [ht] at h
    | some br =>
      obtain ⟨body, r2⟩ := br
      simp only [ht] at h
      cases hs : ipParseSets c (body.length + 1) st body with
      | mk st1 res =>
        cases res with
        | ok ss =>
          simp only [hs, Prod.mk.injEq, Res.ok.injEq] at h
          obtain ⟨_, rfl, _⟩ := h
          have := ipParseSets_all (Qi := fun b => ipBodyWf nm b = true) (ipParseBody_wf' hc) _ _ _ _ _ hs
          simp only [pktWf, Bool.and_eq_true, List.all_eq_true]
          exact ⟨parseLayout_wf hc.protoFrom hc.ipHdr hl, this⟩
        | err => simp [hs] at h
        | panic => simp [hs] at h
        | overflow => simp [hs] at h

theorem parseVersioned_wf {c : Config} {nm : JNames} (hc : TablesCover c nm) (st st' : PState) (k : Nat) (i : Bytes)
    (p : Packet) (r : Bytes) (h : parseVersioned c st k i = (st', .ok p r)) : pktWf c nm p = true := by
  unfold parseVersioned at h
  split at h
  · cases hp : parseFixed c c.t.v5Hdr c.t.v5Rec i with
    | none => simp [hp] at h
    | some x =>
      obtain ⟨⟨hd, rs⟩, r1⟩ := x
      simp only [hp, Prod.mk.injEq, Step.ok.injEq] at h
      obtain ⟨_, rfl, _⟩ := h
      obtain ⟨a, b⟩ := parseFixed_wf hc.protoFrom hc.v5Hdr hc.v5Rec hp
      simp [pktWf, a, b]
  split at h
  · cases hp : parseFixed c c.t.v7Hdr c.t.v7Rec i with
    | none => simp [hp] at h
    | some x =>
      obtain ⟨⟨hd, rs⟩, r1⟩ := x
      simp only [hp, Prod.mk.injEq, Step.ok.injEq] at h
      obtain ⟨_, rfl, _⟩ := h
      obtain ⟨a, b⟩ := parseFixed_wf hc.protoFrom hc.v7Hdr hc.v7Rec hp
      simp [pktWf, a, b]
  split at h
  · simp only [Prod.mk.injEq] at h
    obtain ⟨_, h2⟩ := h
    cases hp : parseV9 c st i with
    | mk st1 res =>
      rw [hp] at h2
      cases res with
      | ok x => obtain ⟨p', r'⟩ := x; simp only [liftRes, Step.ok.injEq] at h2; obtain ⟨rfl, _⟩ := h2; exact parseV9_wf hc _ _ _ _ _ hp
      | err => simp [liftRes] at h2
      | panic => simp [liftRes] at h2
      | overflow => simp [liftRes] at h2
  split at h
  · simp only [Prod.mk.injEq] at h
    obtain ⟨_, h2⟩ := h
    cases hp : parseIpfix c st i with
    | mk st1 res =>
      rw [hp] at h2
      cases res with
      | ok x => obtain ⟨p', r'⟩ := x; simp only [liftRes, Step.ok.injEq] at h2; obtain ⟨rfl, _⟩ := h2; exact parseIpfix_wf hc _ _ _ _ _ hp
      | err => simp [liftRes] at h2
      | panic => simp [liftRes] at h2
      | overflow => simp [liftRes] at h2
  · simp at h

theorem parsePacket_wf {c : Config} {nm : JNames} (hc : TablesCover c nm) (st st' : PState) (i : Bytes)
    (p : Packet) (r : Bytes) (h : parsePacket c st i = (st', .ok p r)) : pktWf c nm p = true := by
  unfold parsePacket at h
  have := parseVersioned_wf hc st
  grind

/-- a packet property that holds of every successful `parsePacket` and of every error element holds of every
    element of the list `parseBytes` returns -/
theorem parseBytesF_forall {c : Config} {Q : Packet → Prop}
    (hv : ∀ st st' i p r, parsePacket c st i = (st', .ok p r) → Q p) (he : ∀ e b, Q (.error e b)) :
    ∀ (f : Nat) (st st' : PState) (buf : Bytes) (ps : List Packet),
      parseBytesF c f st buf = (st', .done ps) → ∀ p ∈ ps, Q p := by
  intro f
  induction f with
  | zero => intro st st' buf ps h; simp [parseBytesF] at h
  | succ f ih =>
    intro st st' buf ps h
    unfold parseBytesF at h
    by_cases hemp : buf.isEmpty = true
    · simp only [hemp, ↓reduceIte, Prod.mk.injEq, Outcome.done.injEq] at h
      rw [← h.2]; simp
    · simp only [hemp, Bool.false_eq_true, ↓reduceIte] at h
      cases hp : parsePacket c st buf with
      | mk st1 step =>
        simp only [hp] at h
        cases step with
        | ok pkt rest =>
          have hpk := hv _ _ _ _ _ hp
          simp only at h
          by_cases hr : rest.isEmpty = true
          · simp only [hr, ↓reduceIte, Prod.mk.injEq, Outcome.done.injEq] at h
            rw [← h.2]; simpa using hpk
          · simp only [hr, Bool.false_eq_true, ↓reduceIte] at h
            cases hrec : parseBytesF c f st1 rest with
            | mk st2 out =>
              simp only [hrec, Prod.mk.injEq] at h
              cases out with
              | done ps' =>
                simp only [Outcome.cons, Outcome.done.injEq] at h
                have := ih _ _ _ _ hrec
                rw [← h.2]
                intro p hp'
                simp only [List.mem_cons] at hp'
                rcases hp' with hp' | hp'
                · subst hp'; exact hpk
                · exact this p hp'
              | panic _ => simp [Outcome.cons] at h
              | overflow _ => simp [Outcome.cons] at h
        | fail e =>
          simp only [Prod.mk.injEq, Outcome.done.injEq] at h
          rw [← h.2]; simpa using he e buf
        | unallowed =>
          simp only [Prod.mk.injEq, Outcome.done.injEq] at h
          rw [← h.2]; simp
        | panic => simp at h
        | overflow => simp at h

theorem parseBytes_wf {c : Config} {nm : JNames} (hc : TablesCover c nm) (st st' : PState) (buf : Bytes)
    (ps : List Packet) (h : parseBytes c st buf = (st', .done ps)) : ∀ p ∈ ps, pktWf c nm p = true :=
  parseBytesF_forall (Q := fun p => pktWf c nm p = true) (parsePacket_wf hc) (fun _ _ => rfl) _ _ _ _ _ h

/-- the range of a `lookupD` table conversion is contained in `ks` if every entry and the default are -/
theorem lookupD_mem {tbl : List (Nat × Nat)} {d : Nat} {ks : List Nat}
    (h1 : tbl.all (fun p => ks.contains p.2) = true) (h2 : ks.contains d = true) (x : Nat) :
    Generated.lookupD tbl d x ∈ ks := by
  unfold Generated.lookupD
  cases hl : tbl.lookup x with
  | none => simpa using h2
  | some v =>
    have := lookup_mem hl
    simp only [List.all_eq_true] at h1
    simpa using h1 _ this

end Netflow.B1
