/-
  Lemmas/A4Common.lean — helpers for C13: which VALUE the generic layout parser puts at a field
  (constants, the derived protocol field, width bounds), provenance of `countP` results, inversion
  of `parseVersioned` by packet variant, `recGet` vs `firstField`.
-/
import NetflowModel.Lemmas.A4Filter
namespace Netflow
open Preds

/-! ### values produced by the layout parser -/

/-- what the layout parser guarantees about the value at position `n` of a field of kind `k` -/
def FieldOk (proto : Nat → Nat) (k : FKind) (vals : List Nat) (n : Nat) : Prop :=
  match k with
  | .wire w => ∃ x, vals[n]? = some x ∧ x < 256 ^ w
  | .const v => vals[n]? = some v
  | .protoOf src => vals[n]? = some (proto ((vals.take n).getD src 0))

theorem parseFields_spec (proto : Nat → Nat) :
    ∀ (lay : Layout) (acc : List Nat) (i : Bytes) (vals : List Nat) (r : Bytes),
      parseFields proto lay acc i = some (vals, r) →
      vals.take acc.length = acc ∧
      ∀ (j : Nat) (hj : j < lay.length), FieldOk proto lay[j].kind vals (acc.length + j) := by
  intro lay
  induction lay with
  | nil =>
    intro acc i vals r h
    simp [parseFields] at h
    simp [h.1.symm]
  | cons f fs ih =>
    intro acc i vals r h
    -- common tail: from the recursive call on `acc ++ [x]`
    have key : ∀ (x : Nat) (i' : Bytes), parseFields proto fs (acc ++ [x]) i' = some (vals, r) →
        vals.take acc.length = acc ∧ vals[acc.length]? = some x ∧
        ∀ (j : Nat) (hj : j < fs.length), FieldOk proto fs[j].kind vals (acc.length + (j + 1)) := by
      intro x i' h'
      obtain ⟨h1, h2⟩ := ih _ _ _ _ h'
      rw [List.length_append, List.length_singleton] at h1
      refine ⟨?_, ?_, ?_⟩
      · have : (vals.take (acc.length + 1)).take acc.length = (acc ++ [x]).take acc.length := by rw [h1]
        rw [List.take_take, Nat.min_eq_left (by omega)] at this
        rw [this]; simp
      · have : (vals.take (acc.length + 1))[acc.length]? = (acc ++ [x])[acc.length]? := by rw [h1]
        rw [List.getElem?_take] at this
        simpa using this
      · intro j hj
        have := h2 j hj
        rw [List.length_append, List.length_singleton, Nat.add_assoc, Nat.add_comm 1 j] at this
        exact this
    unfold parseFields at h
    cases hk : f.kind with
    | wire w =>
      simp only [hk] at h
      cases hb : beU w i with
      | none => simp [hb] at h
      | some vr =>
        obtain ⟨v, r1⟩ := vr
        simp only [hb] at h
        obtain ⟨k1, k2, k3⟩ := key _ _ h
        refine ⟨k1, ?_⟩
        intro j hj
        cases j with
        | zero => simp only [List.getElem_cons_zero, hk, FieldOk, Nat.add_zero]; exact ⟨v, k2, beU_lt hb⟩
        | succ j => simp only [List.getElem_cons_succ]; exact k3 j (by simpa using hj)
    | const v =>
      simp only [hk] at h
      obtain ⟨k1, k2, k3⟩ := key _ _ h
      refine ⟨k1, ?_⟩
      intro j hj
      cases j with
      | zero => simp only [List.getElem_cons_zero, hk, FieldOk, Nat.add_zero]; exact k2
      | succ j => simp only [List.getElem_cons_succ]; exact k3 j (by simpa using hj)
    | protoOf s =>
      simp only [hk] at h
      obtain ⟨k1, k2, k3⟩ := key _ _ h
      refine ⟨k1, ?_⟩
      intro j hj
      cases j with
      | zero => simp only [List.getElem_cons_zero, hk, FieldOk, Nat.add_zero]; rw [k1]; exact k2
      | succ j => simp only [List.getElem_cons_succ]; exact k3 j (by simpa using hj)

/-- kind of the field called `name` -/
def Layout.kindOf (lay : Layout) (name : String) : Option FKind := (lay[lay.indexOf name]?).map (·.kind)

theorem parseLayout_fieldOk {proto : Nat → Nat} {lay : Layout} {i r : Bytes} {vals : List Nat} {name : String} {k : FKind}
    (h : parseLayout proto lay i = some (vals, r)) (hk : lay.kindOf name = some k) :
    FieldOk proto k vals (lay.indexOf name) := by
  obtain ⟨_, h2⟩ := parseFields_spec proto lay [] i vals r h
  unfold Layout.kindOf at hk
  cases hg : lay[lay.indexOf name]? with
  | none => simp [hg] at hk
  | some f =>
    simp only [hg, Option.map_some, Option.some.injEq] at hk
    obtain ⟨hj, hf⟩ := List.getElem?_eq_some_iff.1 hg
    have := h2 _ hj
    rw [hf, hk] at this
    simpa using this

theorem parseLayout_const {proto : Nat → Nat} {lay : Layout} {i r : Bytes} {vals : List Nat} {name : String} {v : Nat}
    (h : parseLayout proto lay i = some (vals, r)) (hk : lay.kindOf name = some (.const v)) :
    lay.get name vals = v := by
  have := parseLayout_fieldOk h hk
  simp only [FieldOk] at this
  simp [Layout.get, List.getD, this]

theorem parseLayout_wire_lt {proto : Nat → Nat} {lay : Layout} {i r : Bytes} {vals : List Nat} {name : String} {w : Nat}
    (h : parseLayout proto lay i = some (vals, r)) (hk : lay.kindOf name = some (.wire w)) :
    lay.get name vals < 256 ^ w := by
  obtain ⟨x, hx, hlt⟩ := parseLayout_fieldOk h hk
  simp [Layout.get, List.getD, hx, hlt]

theorem parseLayout_protoOf {proto : Nat → Nat} {lay : Layout} {i r : Bytes} {vals : List Nat} {pname nname : String}
    (h : parseLayout proto lay i = some (vals, r)) (hk : lay.kindOf pname = some (.protoOf (lay.indexOf nname)))
    (hlt : lay.indexOf nname < lay.indexOf pname) :
    lay.get pname vals = proto (lay.get nname vals) := by
  have := parseLayout_fieldOk h hk
  simp only [FieldOk] at this
  have e : (vals.take (lay.indexOf pname)).getD (lay.indexOf nname) 0 = vals.getD (lay.indexOf nname) 0 := by
    simp [List.getD, hlt]
  rw [e] at this
  simp [Layout.get, List.getD, this]

/-! ### provenance -/

theorem countP_mem {α : Type} {p : P α} :
    ∀ (k : Nat) (i : Bytes) (as : List α) (r : Bytes), countP p k i = some (as, r) →
      ∀ a ∈ as, ∃ i' r', p i' = some (a, r') := by
  intro k
  induction k with
  | zero =>
    intro i as r h
    simp only [countP, Option.some.injEq, Prod.mk.injEq] at h
    intro a ha; rw [← h.1] at ha; simp at ha
  | succ k ih =>
    intro i as r h
    simp only [countP] at h
    cases hpi : p i with
    | none => simp [hpi] at h
    | some ar =>
      obtain ⟨a, r1⟩ := ar
      simp only [hpi] at h
      cases hc : countP p k r1 with
      | none => simp [hc] at h
      | some asr =>
        obtain ⟨as', r2⟩ := asr
        simp only [hc, Option.some.injEq, Prod.mk.injEq] at h
        intro x hx
        rw [← h.1] at hx
        rcases List.mem_cons.1 hx with e | hx
        · subst e; exact ⟨_, _, hpi⟩
        · exact ih _ _ _ hc x hx

/-- header and records of a fixed-format packet each come from the layout parser -/
theorem parseFixed_parts (c : Config) (hdr rec : Layout) (i : Bytes) (h : List Nat) (rs : List (List Nat)) (r : Bytes)
    (hp : parseFixed c hdr rec i = some ((h, rs), r)) :
    (∃ r1, parseLayout c.t.protoFromU8 hdr i = some (h, r1)) ∧
    ∀ x ∈ rs, ∃ i' r', parseLayout c.t.protoFromU8 rec i' = some (x, r') := by
  unfold parseFixed at hp
  cases hh : parseLayout c.t.protoFromU8 hdr i with
  | none => simp [hh] at hp
  | some hr =>
    obtain ⟨h', r1⟩ := hr
    simp only [hh] at hp
    cases hc : countP (parseLayout c.t.protoFromU8 rec) (hdr.get "count" h') r1 with
    | none => simp [hc] at hp
    | some cr =>
      obtain ⟨rs', r2⟩ := cr
      simp only [hc, Option.some.injEq, Prod.mk.injEq] at hp
      obtain ⟨⟨e1, e2⟩, e3⟩ := hp
      subst e1 e2 e3
      exact ⟨⟨_, rfl⟩, countP_mem _ _ _ _ hc⟩

theorem parseV9_ok_inv_a4 (c : Config) (st st' : PState) (i : Bytes) (p : Packet) (r : Bytes)
    (hp : parseV9 c st i = (st', .ok (p, r))) :
    ∃ h ss r1, p = .v9 h ss ∧ parseLayout c.t.protoFromU8 c.t.v9Hdr i = some (h, r1) := by
  unfold parseV9 at hp
  cases hh : parseLayout c.t.protoFromU8 c.t.v9Hdr i with
  | none => simp [hh] at hp
  | some hr =>
    obtain ⟨h, r1⟩ := hr
    simp only [hh] at hp
    cases hs : v9ParseSets c (c.t.v9Hdr.get "count" h) st r1 with
    | mk st1 res =>
      cases res with
      | ok ssr =>
        obtain ⟨ss, r2⟩ := ssr
        simp only [hs, Prod.mk.injEq, Res.ok.injEq] at hp
        exact ⟨h, ss, r1, hp.2.1.symm, rfl⟩
      | err => simp [hs] at hp
      | panic => simp [hs] at hp
      | overflow => simp [hs] at hp

theorem parseIpfix_ok_inv_a4 (c : Config) (st st' : PState) (i : Bytes) (p : Packet) (r : Bytes)
    (hp : parseIpfix c st i = (st', .ok (p, r))) :
    ∃ h ss r1, p = .ipfix h ss ∧ parseLayout c.t.protoFromU8 c.t.ipHdr i = some (h, r1) := by
  unfold parseIpfix at hp
  cases hh : parseLayout c.t.protoFromU8 c.t.ipHdr i with
  | none => simp [hh] at hp
  | some hr =>
    obtain ⟨h, r1⟩ := hr
    simp only [hh] at hp
    cases ht : takeN (c.t.ipHdr.get "length" h - 16) r1 with
    | none => simp [ht] at hp
    | some br =>
      obtain ⟨body, r2⟩ := br
      simp only [ht] at hp
      cases hs : ipParseSets c (body.length + 1) st body with
      | mk st1 res =>
        cases res with
        | ok ss =>
          simp only [hs, Prod.mk.injEq, Res.ok.injEq] at hp
          exact ⟨h, ss, r1, hp.2.1.symm, rfl⟩
        | err => simp [hs] at hp
        | panic => simp [hs] at hp
        | overflow => simp [hs] at hp

/-- where a packet returned by `parse_packet_by_version` comes from, by variant -/
inductive PacketOrigin (c : Config) : Packet → Prop where
  | v5 (h : List Nat) (rs : List (List Nat)) (i r : Bytes) :
      parseFixed c c.t.v5Hdr c.t.v5Rec i = some ((h, rs), r) → PacketOrigin c (.v5 h rs)
  | v7 (h : List Nat) (rs : List (List Nat)) (i r : Bytes) :
      parseFixed c c.t.v7Hdr c.t.v7Rec i = some ((h, rs), r) → PacketOrigin c (.v7 h rs)
  | v9 (h : List Nat) (ss : List V9Set) (i r : Bytes) :
      parseLayout c.t.protoFromU8 c.t.v9Hdr i = some (h, r) → PacketOrigin c (.v9 h ss)
  | ipfix (h : List Nat) (ss : List IpSet) (i r : Bytes) :
      parseLayout c.t.protoFromU8 c.t.ipHdr i = some (h, r) → PacketOrigin c (.ipfix h ss)

theorem parseVersioned_origin (c : Config) (st st' : PState) (kind : Nat) (body : Bytes) (pkt : Packet) (rest : Bytes)
    (h : parseVersioned c st kind body = (st', .ok pkt rest)) : PacketOrigin c pkt := by
  unfold parseVersioned at h
  split at h
  · cases hp : parseFixed c c.t.v5Hdr c.t.v5Rec body with
    | none => simp [hp] at h
    | some x =>
      obtain ⟨⟨hd, rs⟩, r⟩ := x
      simp only [hp, Prod.mk.injEq, Step.ok.injEq] at h
      rw [← h.2.1]; exact .v5 _ _ _ _ hp
  · split at h
    · cases hp : parseFixed c c.t.v7Hdr c.t.v7Rec body with
      | none => simp [hp] at h
      | some x =>
        obtain ⟨⟨hd, rs⟩, r⟩ := x
        simp only [hp, Prod.mk.injEq, Step.ok.injEq] at h
        rw [← h.2.1]; exact .v7 _ _ _ _ hp
    · split at h
      · cases hp : parseV9 c st body with
        | mk st1 res =>
          cases res with
          | ok pr =>
            obtain ⟨p, r⟩ := pr
            simp only [hp, liftRes, Prod.mk.injEq, Step.ok.injEq] at h
            obtain ⟨hd, ss, r1, e, hl⟩ := parseV9_ok_inv_a4 c _ _ _ _ _ hp
            rw [← h.2.1, e]; exact .v9 _ _ _ _ hl
          | err => simp [hp, liftRes] at h
          | panic => simp [hp, liftRes] at h
          | overflow => simp [hp, liftRes] at h
      · split at h
        · cases hp : parseIpfix c st body with
          | mk st1 res =>
            cases res with
            | ok pr =>
              obtain ⟨p, r⟩ := pr
              simp only [hp, liftRes, Prod.mk.injEq, Step.ok.injEq] at h
              obtain ⟨hd, ss, r1, e, hl⟩ := parseIpfix_ok_inv_a4 c _ _ _ _ _ hp
              rw [← h.2.1, e]; exact .ipfix _ _ _ _ hl
            | err => simp [hp, liftRes] at h
            | panic => simp [hp, liftRes] at h
            | overflow => simp [hp, liftRes] at h
        · simp at h

theorem parsePacket_origin (c : Config) (st st' : PState) (buf : Bytes) (pkt : Packet) (rest : Bytes)
    (h : parsePacket c st buf = (st', .ok pkt rest)) : PacketOrigin c pkt := by
  rcases parsePacket_inv _ _ _ _ _ h with ⟨_, _, hs⟩ | ⟨_, _, _, _, hs⟩ | ⟨_, _, _, _, _, hs⟩ | ⟨v', kind, _, _, _, hpv⟩
  · simp at hs
  · simp at hs
  · simp at hs
  · exact parseVersioned_origin _ _ _ _ _ _ _ hpv

/-- every non-error element of a `parse_bytes` result was returned by `parse_packet_by_version` -/
theorem parseBytesF_origin (c : Config) :
    ∀ (fuel : Nat) (st st' : PState) (buf : Bytes) (pkts : List Packet),
      parseBytesF c fuel st buf = (st', .done pkts) →
      ∀ p ∈ pkts, (∃ k r, p = .error k r) ∨ PacketOrigin c p := by
  intro fuel
  induction fuel with
  | zero => intro st st' buf pkts h; simp [parseBytesF] at h
  | succ fuel ih =>
    intro st st' buf pkts h
    unfold parseBytesF at h
    by_cases he : buf.isEmpty = true
    · simp only [he, ↓reduceIte, Prod.mk.injEq, Outcome.done.injEq] at h
      rw [← h.2]; simp
    · simp only [he, Bool.false_eq_true, ↓reduceIte] at h
      cases hp : parsePacket c st buf with
      | mk st1 step =>
        simp only [hp] at h
        cases step with
        | ok pkt rest =>
          simp only at h
          have ho := parsePacket_origin _ _ _ _ _ _ hp
          by_cases hre : rest.isEmpty = true
          · simp only [hre, ↓reduceIte, Prod.mk.injEq, Outcome.done.injEq] at h
            rw [← h.2]
            intro p hp'
            simp only [List.mem_singleton] at hp'
            subst hp'; exact Or.inr ho
          · simp only [hre, Bool.false_eq_true, ↓reduceIte] at h
            cases hrec : parseBytesF c fuel st1 rest with
            | mk st2 out =>
              simp only [hrec, Prod.mk.injEq] at h
              cases out with
              | done ps =>
                simp only [Outcome.cons, Outcome.done.injEq] at h
                rw [← h.2]
                intro p hp'
                rcases List.mem_cons.1 hp' with e | hp'
                · subst e; exact Or.inr ho
                · exact ih _ _ _ _ hrec p hp'
              | panic ps => simp [Outcome.cons] at h
              | overflow ps => simp [Outcome.cons] at h
        | fail e =>
          simp only [Prod.mk.injEq, Outcome.done.injEq] at h
          rw [← h.2]
          intro p hp'
          simp only [List.mem_singleton] at hp'
          exact Or.inl ⟨_, _, hp'⟩
        | unallowed =>
          simp only [Prod.mk.injEq, Outcome.done.injEq] at h
          rw [← h.2]; simp
        | panic => simp at h
        | overflow => simp at h

/-! ### `recGet` (last entry wins) vs `firstField` (first entry) -/

theorem find?_reverse_of_filter_le_one {α : Type} (p : α → Bool) :
    ∀ (l : List α), (l.filter p).length ≤ 1 → l.reverse.find? p = l.find? p := by
  intro l
  induction l with
  | nil => intro _; rfl
  | cons e l ih =>
    intro h
    rw [List.reverse_cons, List.find?_append]
    by_cases hp : p e = true
    · rw [List.filter_cons_of_pos hp, List.length_cons] at h
      have hnil : l.filter p = [] := List.eq_nil_of_length_eq_zero (by omega)
      have hnone : ∀ x ∈ l, ¬ p x = true := by
        intro x hx hpx
        have : x ∈ l.filter p := List.mem_filter.2 ⟨hx, hpx⟩
        rw [hnil] at this; simp at this
      have h1 : l.reverse.find? p = none := by
        rw [List.find?_eq_none]; intro x hx; exact hnone x (List.mem_reverse.1 hx)
      rw [h1]
      simp [List.find?, hp]
    · have hp' : p e = false := by simpa using hp
      rw [List.filter_cons_of_neg hp] at h
      rw [ih h]
      simp [List.find?, hp']

theorem recGet_eq_firstField (r : Rec) (disc : Nat) (h : (r.filter fun e => e.2.1 == disc).length ≤ 1) :
    recGet r disc = firstField r disc := by
  unfold recGet firstField
  rw [find?_reverse_of_filter_le_one _ r h]
  rfl

/-! ### decidable side conditions on the generated layouts (C13) -/

/-- a V5/V7 record layout carries a one-byte `protocol_number` and, after it, a `protocol_type`
    derived from it by `ProtocolTypes::from` -/
def fixedRecOk (lay : Layout) : Bool :=
  lay.kindOf "protocol_number" == some (.wire 1) &&
  lay.kindOf "protocol_type" == some (.protoOf (lay.indexOf "protocol_number")) &&
  decide (lay.indexOf "protocol_number" < lay.indexOf "protocol_type")

/-- the `version` header fields are the constants 5/7/9/10, the record layouts are as above, and
    the converters take `sys_up_time` (V9) resp. `export_time` (IPFIX) as timestamp -/
def Tables.commonLayoutOk (t : Tables) : Bool :=
  t.v5Hdr.kindOf "version" == some (.const 5) && t.v7Hdr.kindOf "version" == some (.const 7) &&
  t.v9Hdr.kindOf "version" == some (.const 9) && t.ipHdr.kindOf "version" == some (.const 10) &&
  fixedRecOk t.v5Rec && fixedRecOk t.v7Rec &&
  t.commonV9.ts == "sys_up_time" && t.commonIp.ts == "export_time"

/-- protocol numbers on which `From<u8> for ProtocolTypes` deviates from the IANA registry -/
def badProtos : List Nat := [0, 1, 144, 255]

/-- off `badProtos`, `From<u8>` yields the variant carrying the IANA name -/
def ProtoTableOk (t : Tables) (names : List (Nat × String)) : Prop :=
  ∀ n, n < 256 → n ∉ badProtos → t.protoFromU8 n = Spec.protoSpecDisc names n

/-- a record produced by the layout parser: the common flow is the specified one except that the
    protocol name is `From<u8>` of the number (which is a byte) -/
theorem commonOfFixed_eq (proto : Nat → Nat) (names : List (Nat × String)) (lay : Layout) (hl : fixedRecOk lay = true)
    (r : List Nat) (i r' : Bytes) (hp : parseLayout proto lay i = some (r, r')) :
    commonOfFixed lay r = { specFixedFlow names lay r with protoType := some (proto (lay.get "protocol_number" r)) } ∧
    lay.get "protocol_number" r < 256 := by
  simp only [fixedRecOk, Bool.and_eq_true, beq_iff_eq, decide_eq_true_eq] at hl
  obtain ⟨⟨h1, h2⟩, h3⟩ := hl
  have e := parseLayout_protoOf hp h2 h3
  have l := parseLayout_wire_lt hp h1
  refine ⟨?_, by simpa using l⟩
  simp only [commonOfFixed, specFixedFlow, e]

/-! ### value kinds the converters accept -/

def isU8 : FieldValue → Bool | .num (.u8 _) => true | _ => false
def isU16 : FieldValue → Bool | .num (.u16 _) => true | _ => false
def isU32 : FieldValue → Bool | .num (.u32 _) => true | _ => false

theorem asU8_eq_of_isU8 {t : Tables} {v : FieldValue} (h : isU8 v = true) : asU8 v = protoNumOf t v := by
  cases v with
  | num d => cases d <;> simp_all [isU8, asU8, protoNumOf, numOf]
  | _ => simp [isU8] at h
theorem asU16_eq_of_isU16 {v : FieldValue} (h : isU16 v = true) : asU16 v = numOf v := by
  cases v with
  | num d => cases d <;> simp_all [isU16, asU16, numOf]
  | _ => simp [isU16] at h
theorem asU32_eq_of_isU32 {v : FieldValue} (h : isU32 v = true) : asU32 v = timeOf v := by
  cases v with
  | num d => cases d <;> simp_all [isU32, asU32, timeOf, numOf]
  | _ => simp [isU32] at h

theorem bind_congr_of_all {α β : Type} {p : α → Bool} {f g : α → Option β} (hfg : ∀ a, p a = true → f a = g a)
    {o : Option α} (h : o.all p = true) : o.bind f = o.bind g := by
  cases o with
  | none => rfl
  | some a => simp only [Option.all_some] at h; simp [hfg a h]

/-- every projected scalar field present in the record was decoded as the kind its converter accepts
    (ports `U16`, protocol `U8`, first/last seen `U32`) -/
def kindsAccepted (k : CommonKeys) (r : Rec) : Bool :=
  (firstField r k.sport).all isU16 && (firstField r k.dport).all isU16 && (firstField r k.proto).all isU8 &&
  (firstField r k.first).all isU32 && (firstField r k.last).all isU32

/-- the record's protocol number (if decoded as a plain `U8`) is a byte off `badProtos` -/
def protoGood (k : CommonKeys) (r : Rec) : Bool :=
  (firstField r k.proto).all fun v =>
    match v with
    | .num (.u8 n) => decide (n < 256) && !badProtos.contains n
    | _ => true

theorem dupKeys_false {k : CommonKeys} {r : Rec} (h : dupKeys k r = false) :
    ∀ key ∈ [k.src4, k.src6, k.dst4, k.dst6, k.sport, k.dport, k.proto, k.first, k.last, k.smac, k.dmac],
      (r.filter fun e => e.2.1 == key).length ≤ 1 := by
  intro key hk
  unfold dupKeys at h
  rw [List.any_eq_false] at h
  have := h key hk
  simp only [decide_eq_true_eq] at this
  omega

theorem ip_orElse_eq (a b : Option FieldValue) :
    (a.orElse fun _ => b).bind asIp = (match a with | some v => asIp v | none => b.bind asIp) := by
  cases a <;> rfl

end Netflow
