/-
  Lemmas/P5Fields.lean — helper lemmas for `Props/C15b.lean`, second part: the size of the result
  WITHOUT the honesty hypothesis of `Lemmas/B3Cost*.lean`.  If no data template (cached or reported)
  has more than `M` fields, every stage satisfies
        size (what the stage returns) + W·|rest| ≤ W·|input| (+ const)      with  W ≥ 115 + 112·M,
  because a record of a `k`-field template costs at most `const·k + 3·(bytes consumed)` and the
  NUMBER of records is bounded by the bytes of the set (V9: `|body| / total_size` iterations; IPFIX:
  every iteration but the last consumes a byte, and the set header pays for the last).
  `W` is kept as an opaque variable so that `omega` sees `W * x` as an atom; the few genuinely
  nonlinear steps are the small lemmas at the top.
-/
import NetflowModel.Lemmas.P5Copy
import NetflowModel.Lemmas.B3CostTop
namespace Netflow.P5
open Netflow Cost B3

/-! ### arithmetic -/

theorem mul3_eq {W a b c d : Nat} (h : a + b + c = d) : W * a + W * b + W * c = W * d := by
  rw [← Nat.mul_add, ← Nat.mul_add, h]

theorem le_mul_pos (W : Nat) {n : Nat} (h : 1 ≤ n) : W ≤ W * n := Nat.le_mul_of_pos_right _ h

theorem lin_le (X : Nat) {t : Nat} (ht : 1 ≤ t) : X + 3 * t ≤ (X + 3) * t := by
  rw [Nat.add_mul]
  have : X ≤ X * t := Nat.le_mul_of_pos_right _ ht
  omega

/-! ### the invariant -/

theorem FLe_iff (M : Nat) (st : PState) : FLe M st = true ↔
    st.v9T.all (fun e => fleV9T M e.2) = true ∧ st.ipT.all (fun e => fleIpT M e.2) = true ∧
    st.ipO.all (fun e => fleIpO M e.2) = true := by
  simp only [FLe, Bool.and_eq_true, and_assoc]

theorem insertV9Templates_fle (M : Nat) :
    ∀ (ts : List V9Template) (st : PState), FLe M st = true → ts.all (fleV9T M) = true →
      FLe M (insertV9Templates st ts) = true := by
  intro ts
  induction ts with
  | nil => intro st h _; exact h
  | cons t ts ih =>
    intro st h ht
    simp only [List.all_cons, Bool.and_eq_true] at ht
    simp only [insertV9Templates]
    apply ih _ _ ht.2
    rw [FLe_iff] at h ⊢
    obtain ⟨h1, h2, h3⟩ := h
    exact ⟨amInsert_all (fleV9T M) _ _ ht.1 _ h1, h2, h3⟩

theorem insertV9OptTemplates_fle (M : Nat) :
    ∀ (ts : List V9OptTemplate) (st : PState), FLe M st = true →
      FLe M (insertV9OptTemplates st ts) = true := by
  intro ts
  induction ts with
  | nil => intro st h; exact h
  | cons t ts ih =>
    intro st h
    simp only [insertV9OptTemplates]
    apply ih
    rw [FLe_iff] at h ⊢
    obtain ⟨h1, h2, h3⟩ := h
    exact ⟨amErase_all (fleV9T M) _ _ h1, h2, h3⟩

/-! ### V9 -/

/-- a V9 record WITHOUT honesty: 48 per field plus 3 per byte consumed -/
theorem v9ParseRec_cost0 (c : Config) :
    ∀ (fs : List TField) (idx : Nat) (i : Bytes) (es : Rec) (r : Bytes),
      v9ParseRec c fs idx i = some (es, r) →
      entSum es + 3 * r.length ≤ 48 * fs.length + 3 * i.length := by
  intro fs
  induction fs with
  | nil => intro idx i es r h; simp [v9ParseRec] at h; obtain ⟨e1, e2⟩ := h; subst e1 e2; simp [entSum]
  | cons f fs ih =>
    intro idx i es r h
    simp only [v9ParseRec] at h
    cases hv : parseValue c.vc (c.t.v9Ty (c.t.v9Field f.typ)) f.len i with
    | none => simp [hv] at h
    | some x =>
      obtain ⟨v, r1⟩ := x
      simp only [hv] at h
      cases hr : v9ParseRec c fs (idx + 1) r1 with
      | none => simp [hr] at h
      | some y =>
        obtain ⟨es', r2⟩ := y
        simp only [hr, Option.some.injEq, Prod.mk.injEq] at h
        obtain ⟨e1, e2⟩ := h
        subst e1 e2
        obtain ⟨n, a1, a2, _⟩ := parseValue_cost hv
        have b1 := ih _ _ _ _ hr
        simp only [entSum, List.map_cons, List.sum_cons, List.length_cons] at b1 ⊢
        omega

/-- the V9 record loop WITHOUT honesty: `R ≥ 64 + 48·fields` per iteration plus 3 per byte -/
theorem v9RecLoop_cost0 (c : Config) (fs : List TField) (R : Nat) (hR : 64 + 48 * fs.length ≤ R) :
    ∀ (n : Nat) (i : Bytes) (acc recs : List Rec) (pad : Bytes),
      v9RecLoop c fs n i acc = (recs, pad) →
      (recs.map recSize).sum + 3 * pad.length ≤ (acc.map recSize).sum + R * n + 3 * i.length := by
  intro n
  induction n with
  | zero =>
    intro i acc recs pad h
    simp only [v9RecLoop, Prod.mk.injEq] at h
    simp [h.1.symm, h.2.symm]
  | succ n ih =>
    intro i acc recs pad h
    simp only [v9RecLoop] at h
    rw [Nat.mul_succ]
    cases hr : v9ParseRec c fs 0 i with
    | none =>
      simp only [hr] at h
      have := ih _ _ _ _ h
      omega
    | some x =>
      obtain ⟨es, r⟩ := x
      simp only [hr] at h
      have a := ih _ _ _ _ h
      have b := v9ParseRec_cost0 c _ _ _ _ _ hr
      rw [sum_map_append] at a
      simp only [List.map_cons, List.map_nil, List.sum_cons, List.sum_nil, recSize_eq] at a
      omega

theorem v9ParseBody_cost0 (c : Config) (W M : Nat) (hW : 115 + 112 * M ≤ W) (st st' : PState) (id : Nat)
    (body : Bytes) (b : V9Body) (hF : FLe M st = true) (h : v9ParseBody c st id body = (st', .ok b))
    (hb : fleV9Body M b = true) :
    FLe M st' = true ∧ v9BodySize b ≤ W * body.length := by
  unfold v9ParseBody at h
  by_cases h1 : id = c.t.v9TemplateId
  · simp only [h1, ↓reduceIte] at h
    cases hm : many0 parseV9Template body with
    | ok x =>
      obtain ⟨ts, pad⟩ := x
      simp only [hm, Prod.mk.injEq, Res.ok.injEq] at h
      obtain ⟨e1, e2⟩ := h
      subst e1 e2
      simp only [fleV9Body] at hb
      have := many0F_cost (fun t : V9Template => 32 + 8 * t.fields.length) 8 parseV9Template_cost _ _ _ _ hm
      have := mul_le_of_le (show 8 ≤ W by omega) body.length
      exact ⟨insertV9Templates_fle M _ _ hF hb, by simp only [v9BodySize]; omega⟩
    | err => simp [hm] at h
    | outOfFuel => simp [hm] at h
  · simp only [h1, ↓reduceIte] at h
    by_cases h2 : id = c.t.v9OptTemplateId
    · simp only [h2, ↓reduceIte] at h
      cases hm : many0 parseV9OptTemplate body with
      | ok x =>
        obtain ⟨ts, pad⟩ := x
        simp only [hm, Prod.mk.injEq, Res.ok.injEq] at h
        obtain ⟨e1, e2⟩ := h
        subst e1 e2
        have := many0F_cost (fun t : V9OptTemplate => 64 + 8 * (t.scope.length + t.opts.length)) 11
          parseV9OptTemplate_cost _ _ _ _ hm
        have := mul_le_of_le (show 11 ≤ W by omega) body.length
        exact ⟨insertV9OptTemplates_fle M _ _ hF, by simp only [v9BodySize]; omega⟩
      | err => simp [hm] at h
      | outOfFuel => simp [hm] at h
    · simp only [h2, ↓reduceIte] at h
      cases ho : amLookup id st.v9O with
      | some ot =>
        simp only [ho] at h
        cases hs : v9ScopeLoop c ot.scope body with
        | none => simp [hs] at h
        | some x =>
          obtain ⟨ss, r⟩ := x
          simp only [hs] at h
          cases hl : v9OptLoop c ot.opts r with
          | none => simp [hl] at h
          | some y =>
            obtain ⟨os, pad⟩ := y
            simp only [hl, Prod.mk.injEq, Res.ok.injEq] at h
            obtain ⟨e1, e2⟩ := h
            subst e1 e2
            have := v9ScopeLoop_cost c _ _ _ _ hs
            have := v9OptLoop_cost c _ _ _ _ hl
            have := mul_le_of_le (show 33 ≤ W by omega) body.length
            exact ⟨hF, by simp only [v9BodySize]; omega⟩
      | none =>
        simp only [ho] at h
        cases ht : amLookup id st.v9T with
        | none => simp [ht] at h
        | some t =>
          simp only [ht] at h
          by_cases hz : v9TotalSize t.fields = 0
          · simp [hz] at h
          · simp only [hz, ↓reduceIte] at h
            cases hl : v9RecLoop c t.fields (body.length / v9TotalSize t.fields) body [] with
            | mk recs pad =>
              simp only [hl, Prod.mk.injEq, Res.ok.injEq] at h
              obtain ⟨e1, e2⟩ := h
              subst e1 e2
              have hft : fleV9T M t = true := amLookup_all (fleV9T M) _ _ _ ((FLe_iff M st).1 hF).1 ht
              simp only [fleV9T, decide_eq_true_eq] at hft
              obtain ⟨R, hRdef⟩ : ∃ R, R = 64 + 48 * M := ⟨_, rfl⟩
              have a := v9RecLoop_cost0 c t.fields R (by omega) _ _ _ _ _ hl
              simp only [List.map_nil, List.sum_nil] at a
              have hn : body.length / v9TotalSize t.fields ≤ body.length := Nat.div_le_self _ _
              have a1 : R * (body.length / v9TotalSize t.fields) ≤ R * body.length := Nat.mul_le_mul_left R hn
              have a2 : (R + 3) * body.length = R * body.length + 3 * body.length := Nat.add_mul _ _ _
              have a3 := mul_le_of_le (show R + 3 ≤ W by omega) body.length
              exact ⟨hF, by simp only [v9BodySize]; omega⟩

theorem v9ParseSet_cost0 (c : Config) (hw : 1 ≤ c.t.v9SetHdr.wireLen) (W M : Nat) (hW : 115 + 112 * M ≤ W)
    (st st' : PState) (i : Bytes) (s : V9Set) (r : Bytes)
    (hF : FLe M st = true) (h : v9ParseSet c st i = (st', .ok (s, r))) (hb : fleV9Body M s.body = true) :
    FLe M st' = true ∧ v9SetSize s + W * r.length ≤ W * i.length := by
  unfold v9ParseSet at h
  cases hh : parseLayout c.t.protoFromU8 c.t.v9SetHdr i with
  | none => simp [hh] at h
  | some hr =>
    obtain ⟨hd, r1⟩ := hr
    simp only [hh] at h
    cases ht : takeN (c.t.v9SetHdr.get "length" hd - 4) r1 with
    | none => simp [ht] at h
    | some br =>
      obtain ⟨body, r2⟩ := br
      simp only [ht] at h
      have a := parseLayout_len hh
      obtain ⟨b1, b2⟩ := takeN_len ht
      cases hbd : v9ParseBody c st (c.t.v9SetHdr.get "flowset_id" hd) body with
      | mk st2 res =>
        cases res with
        | ok b =>
          simp only [hbd, Prod.mk.injEq, Res.ok.injEq] at h
          obtain ⟨e1, e2, e3⟩ := h
          subst e1 e2 e3
          obtain ⟨c1, c2⟩ := v9ParseBody_cost0 c W M hW _ _ _ _ _ hF hbd hb
          rw [v9SetSize_eq]
          simp only at c2 ⊢
          have e : r2.length + body.length + c.t.v9SetHdr.wireLen = i.length := by omega
          have := @mul3_eq W _ _ _ _ e
          have := le_mul_pos W hw
          exact ⟨c1, by omega⟩
        | err => simp [hbd] at h
        | panic => simp [hbd] at h
        | overflow => simp [hbd] at h

theorem v9ParseSets_cost0 (c : Config) (hw : 1 ≤ c.t.v9SetHdr.wireLen) (W M : Nat) (hW : 115 + 112 * M ≤ W) :
    ∀ (n : Nat) (st st' : PState) (i : Bytes) (ss : List V9Set) (r : Bytes), FLe M st = true →
      v9ParseSets c n st i = (st', .ok (ss, r)) → (ss.all fun s => fleV9Body M s.body) = true →
      FLe M st' = true ∧ (ss.map v9SetSize).sum + W * r.length ≤ W * i.length := by
  intro n
  induction n with
  | zero =>
    intro st st' i ss r hF h _
    simp only [v9ParseSets, Prod.mk.injEq, Res.ok.injEq] at h
    obtain ⟨e0, e1, e2⟩ := h
    subst e0 e1 e2
    exact ⟨hF, by simp⟩
  | succ n ih =>
    intro st st' i ss r hF h hb
    unfold v9ParseSets at h
    by_cases he : i.isEmpty = true
    · simp only [he, if_true] at h
      exact ih _ _ _ _ _ hF h hb
    · simp only [he, Bool.false_eq_true, ↓reduceIte] at h
      cases hs : v9ParseSet c st i with
      | mk st1 res =>
        cases res with
        | ok sr =>
          obtain ⟨s, r1⟩ := sr
          simp only [hs] at h
          cases hrest : v9ParseSets c n st1 r1 with
          | mk st2 res2 =>
            cases res2 with
            | ok ssr =>
              obtain ⟨ss', r2⟩ := ssr
              simp only [hrest, Prod.mk.injEq, Res.ok.injEq] at h
              obtain ⟨e0, e1, e2⟩ := h
              subst e0 e1 e2
              simp only [List.all_cons, Bool.and_eq_true] at hb
              obtain ⟨a1, a2⟩ := v9ParseSet_cost0 c hw W M hW _ _ _ _ _ hF hs hb.1
              obtain ⟨b1, b2⟩ := ih _ _ _ _ _ a1 hrest hb.2
              simp only [List.map_cons, List.sum_cons]
              exact ⟨b1, by omega⟩
            | err => simp [hrest] at h
            | panic => simp [hrest] at h
            | overflow => simp [hrest] at h
        | err => simp [hs] at h
        | panic => simp [hs] at h
        | overflow => simp [hs] at h

theorem parseV9_cost0 (c : Config) (hw : 1 ≤ c.t.v9SetHdr.wireLen) (W M : Nat) (hW : 115 + 112 * M ≤ W)
    (st st' : PState) (i : Bytes) (p : Packet) (r : Bytes)
    (hF : FLe M st = true) (h : parseV9 c st i = (st', .ok (p, r))) (hb : flePkt M p = true) :
    FLe M st' = true ∧ packetSize p + W * r.length ≤ 64 + W * i.length := by
  unfold parseV9 at h
  cases hh : parseLayout c.t.protoFromU8 c.t.v9Hdr i with
  | none => simp [hh] at h
  | some hr =>
    obtain ⟨hd, r1⟩ := hr
    simp only [hh] at h
    cases hs : v9ParseSets c (c.t.v9Hdr.get "count" hd) st r1 with
    | mk st1 res =>
      cases res with
      | ok ssr =>
        obtain ⟨ss, r2⟩ := ssr
        simp only [hs, Prod.mk.injEq, Res.ok.injEq] at h
        obtain ⟨e0, e1, e2⟩ := h
        subst e0 e1 e2
        simp only [flePkt] at hb
        have a := parseLayout_len hh
        obtain ⟨b1, b2⟩ := v9ParseSets_cost0 c hw W M hW _ _ _ _ _ _ hF hs hb
        have : W * r1.length ≤ W * i.length := Nat.mul_le_mul_left W (by omega)
        simp only [packetSize]
        exact ⟨b1, by omega⟩
      | err => simp [hs] at h
      | panic => simp [hs] at h
      | overflow => simp [hs] at h

/-! ### IPFIX -/

/-- an IPFIX record WITHOUT honesty: 112 per field (each field is its own map) plus 3 per byte -/
theorem ipParseRec_cost0 (c : Config) :
    ∀ (fs : List IpTField) (idx : Nat) (i : Bytes) (es : List Rec) (r : Bytes),
      ipParseRec c fs idx i = some (es, r) →
      (es.map recSize).sum + 3 * r.length ≤ 112 * fs.length + 3 * i.length := by
  intro fs
  induction fs with
  | nil => intro idx i es r h; simp [ipParseRec] at h; obtain ⟨e1, e2⟩ := h; subst e1 e2; simp
  | cons f fs ih =>
    intro idx i es r h
    simp only [ipParseRec] at h
    cases hv : ipParseValue c f i with
    | none => simp [hv] at h
    | some x =>
      obtain ⟨v, r1⟩ := x
      simp only [hv] at h
      cases hr : ipParseRec c fs (idx + 1) r1 with
      | none => simp [hr] at h
      | some y =>
        obtain ⟨es', r2⟩ := y
        simp only [hr, Option.some.injEq, Prod.mk.injEq] at h
        obtain ⟨e1, e2⟩ := h
        subst e1 e2
        obtain ⟨n, a1, a2, _⟩ := ipParseValue_cost hv
        have b1 := ih _ _ _ _ hr
        simp only [List.map_cons, List.sum_cons, List.length_cons, recSize, List.map_nil, List.sum_nil] at b1 ⊢
        omega

/-- the IPFIX record loop WITHOUT honesty (`X ≥ 112·fields`, `w = X + 3`): every iteration that goes
    on consumed a byte; the last one may have consumed none and costs `X` on top -/
theorem ipRecLoop_cost0 (c : Config) (fs : List IpTField) (X w : Nat) (hX : 112 * fs.length ≤ X) (hw : w = X + 3) :
    ∀ (fuel : Nat) (i : Bytes) (recs : List Rec) (pad : Bytes),
      ipRecLoop c fs fuel i = .ok (recs, pad) →
      (recs.map recSize).sum + w * pad.length ≤ w * i.length + X := by
  intro fuel
  induction fuel with
  | zero => intro i recs pad h; simp [ipRecLoop] at h
  | succ fuel ih =>
    intro i recs pad h
    simp only [ipRecLoop] at h
    cases hr : ipParseRec c fs 0 i with
    | none => simp [hr] at h
    | some x =>
      obtain ⟨es, r⟩ := x
      simp only [hr] at h
      have a1 := ipParseRec_cost0 c _ _ _ _ _ hr
      obtain ⟨_, a2⟩ := ipParseRec_length c _ _ _ _ _ hr
      by_cases h0 : i.length - r.length = 0
      · simp only [h0, ↓reduceIte, Res.ok.injEq, Prod.mk.injEq] at h
        obtain ⟨e1, e2⟩ := h
        subst e1 e2
        have : r.length = i.length := by omega
        rw [this]
        omega
      · have ht : 1 ≤ i.length - r.length := by omega
        have hsplit : w * r.length + w * (i.length - r.length) = w * i.length := mul_add_eq (by omega)
        have hlin : X + 3 * (i.length - r.length) ≤ w * (i.length - r.length) := by
          rw [hw]; exact lin_le X ht
        simp only [h0, ↓reduceIte] at h
        by_cases h1 : r.length ≥ i.length - r.length
        · simp only [h1, ↓reduceIte] at h
          cases hl : ipRecLoop c fs fuel r with
          | ok y =>
            obtain ⟨more, r'⟩ := y
            simp only [hl, Res.ok.injEq, Prod.mk.injEq] at h
            obtain ⟨e1, e2⟩ := h
            subst e1 e2
            have b1 := ih _ _ _ hl
            rw [sum_map_append]
            omega
          | err => simp [hl] at h
          | panic => simp [hl] at h
          | overflow => simp [hl] at h
        · simp only [h1, ↓reduceIte, Res.ok.injEq, Prod.mk.injEq] at h
          obtain ⟨e1, e2⟩ := h
          subst e1 e2
          omega

theorem ipParseBody_cost0 (c : Config) (W M : Nat) (hW : 115 + 112 * M ≤ W) (st st' : PState) (id : Nat)
    (body : Bytes) (b : IpBody) (hF : FLe M st = true) (h : ipParseBody c st id body = (st', .ok b))
    (hb : fleIpBody M b = true) :
    FLe M st' = true ∧ ipBodySize b + 48 ≤ W * (body.length + 1) := by
  obtain ⟨hF1, hF2, hF3⟩ := (FLe_iff M st).1 hF
  rw [Nat.mul_succ]
  have h8 := mul_le_of_le (show 8 ≤ W by omega) body.length
  unfold ipParseBody at h
  by_cases h1 : id < c.t.ipSetMinRange ∧ id ≠ c.t.ipOptTemplateId
  · rw [if_pos h1] at h
    cases hp : parseIpTemplate body with
    | ok t =>
      simp only [hp] at h
      by_cases hv : ipValid t.fields = true
      · simp only [hv, ↓reduceIte, Prod.mk.injEq, Res.ok.injEq] at h
        obtain ⟨e1, e2⟩ := h
        subst e1 e2
        simp only [fleIpBody] at hb
        have := parseIpTemplate_cost _ _ hp
        refine ⟨?_, by simp only [ipBodySize]; omega⟩
        rw [FLe_iff]
        exact ⟨hF1, amInsert_all (fleIpT M) _ _ hb _ hF2, amErase_all (fleIpO M) _ _ hF3⟩
      · simp [hv] at h
    | err => simp [hp] at h
    | panic => simp [hp] at h
    | overflow => simp [hp] at h
  · rw [if_neg h1] at h
    by_cases h2 : id = c.t.ipOptTemplateId
    · rw [if_pos h2] at h
      cases hp : parseIpOptTemplate body with
      | ok t =>
        simp only [hp] at h
        by_cases hv : ipValid t.fields = true
        · simp only [hv, ↓reduceIte, Prod.mk.injEq, Res.ok.injEq] at h
          obtain ⟨e1, e2⟩ := h
          subst e1 e2
          simp only [fleIpBody] at hb
          have := parseIpOptTemplate_cost _ _ hp
          refine ⟨?_, by simp only [ipBodySize]; omega⟩
          rw [FLe_iff]
          exact ⟨hF1, amErase_all (fleIpT M) _ _ hF2, amInsert_all (fleIpO M) _ _ hb _ hF3⟩
        · simp [hv] at h
      | err => simp [hp] at h
      | panic => simp [hp] at h
      | overflow => simp [hp] at h
    · rw [if_neg h2] at h
      obtain ⟨X, hXdef⟩ : ∃ X, X = 112 * M := ⟨_, rfl⟩
      obtain ⟨w, hwdef⟩ : ∃ w, w = X + 3 := ⟨_, rfl⟩
      have hwW := mul_le_of_le (show w ≤ W by omega) body.length
      cases ht : amLookup id st.ipT with
      | some t =>
        simp only [ht] at h
        by_cases he : t.fields.isEmpty = true
        · simp [he] at h
        · simp only [he, Bool.false_eq_true, ↓reduceIte] at h
          cases hl : ipRecLoop c t.fields (body.length + 1) body with
          | ok x =>
            obtain ⟨recs, pad⟩ := x
            simp only [hl, Prod.mk.injEq, Res.ok.injEq] at h
            obtain ⟨e1, e2⟩ := h
            subst e1 e2
            have hft : fleIpT M t = true := amLookup_all (fleIpT M) _ _ _ hF2 ht
            simp only [fleIpT, decide_eq_true_eq] at hft
            have a1 := ipRecLoop_cost0 c _ X w (by omega) hwdef _ _ _ _ hl
            have a2 : pad.length ≤ w * pad.length := Nat.le_mul_of_pos_left _ (by omega)
            exact ⟨hF, by simp only [ipBodySize]; omega⟩
          | err => simp [hl] at h
          | panic => simp [hl] at h
          | overflow => simp [hl] at h
      | none =>
        simp only [ht] at h
        cases ho : amLookup id st.ipO with
        | none => simp [ho] at h
        | some t =>
          simp only [ho] at h
          by_cases he : t.fields.isEmpty = true
          · simp [he] at h
          · simp only [he, Bool.false_eq_true, ↓reduceIte] at h
            cases hl : ipRecLoop c t.fields (body.length + 1) body with
            | ok x =>
              obtain ⟨recs, pad⟩ := x
              simp only [hl, Prod.mk.injEq, Res.ok.injEq] at h
              obtain ⟨e1, e2⟩ := h
              subst e1 e2
              have hft : fleIpO M t = true := amLookup_all (fleIpO M) _ _ _ hF3 ho
              simp only [fleIpO, decide_eq_true_eq] at hft
              have a1 := ipRecLoop_cost0 c _ X w (by omega) hwdef _ _ _ _ hl
              have a2 : pad.length ≤ w * pad.length := Nat.le_mul_of_pos_left _ (by omega)
              exact ⟨hF, by simp only [ipBodySize]; omega⟩
            | err => simp [hl] at h
            | panic => simp [hl] at h
            | overflow => simp [hl] at h

theorem ipParseSet_cost0 (c : Config) (hw : 1 ≤ c.t.ipSetHdr.wireLen) (W M : Nat) (hW : 115 + 112 * M ≤ W)
    (st st' : PState) (i : Bytes) (s : IpSet) (r : Bytes)
    (hF : FLe M st = true) (h : ipParseSet c st i = (st', .ok (s, r))) (hb : fleIpBody M s.body = true) :
    FLe M st' = true ∧ ipSetSize s + W * r.length ≤ W * i.length := by
  unfold ipParseSet at h
  cases hh : parseLayout c.t.protoFromU8 c.t.ipSetHdr i with
  | none => simp [hh] at h
  | some hr =>
    obtain ⟨hd, r1⟩ := hr
    simp only [hh] at h
    cases ht : takeN (c.t.ipSetHdr.get "length" hd - 4) r1 with
    | none => simp [ht] at h
    | some br =>
      obtain ⟨body, r2⟩ := br
      simp only [ht] at h
      have a := parseLayout_len hh
      obtain ⟨b1, b2⟩ := takeN_len ht
      cases hbd : ipParseBody c st (c.t.ipSetHdr.get "header_id" hd) body with
      | mk st2 res =>
        cases res with
        | ok b =>
          simp only [hbd, Prod.mk.injEq, Res.ok.injEq] at h
          obtain ⟨e1, e2, e3⟩ := h
          subst e1 e2 e3
          obtain ⟨c1, c2⟩ := ipParseBody_cost0 c W M hW _ _ _ _ _ hF hbd hb
          rw [ipSetSize_eq]
          rw [Nat.mul_succ] at c2
          simp only at c2 ⊢
          have e : r2.length + body.length + c.t.ipSetHdr.wireLen = i.length := by omega
          have := @mul3_eq W _ _ _ _ e
          have := le_mul_pos W hw
          exact ⟨c1, by omega⟩
        | err => simp [hbd] at h
        | panic => simp [hbd] at h
        | overflow => simp [hbd] at h

theorem ipParseSets_cost0 (c : Config) (hw : 1 ≤ c.t.ipSetHdr.wireLen) (W M : Nat) (hW : 115 + 112 * M ≤ W) :
    ∀ (fuel : Nat) (st st' : PState) (i : Bytes) (ss : List IpSet), FLe M st = true →
      ipParseSets c fuel st i = (st', .ok ss) → (ss.all fun s => fleIpBody M s.body) = true →
      FLe M st' = true ∧ (ss.map ipSetSize).sum ≤ W * i.length := by
  intro fuel
  induction fuel with
  | zero => intro st st' i ss _ h _; simp [ipParseSets] at h
  | succ fuel ih =>
    intro st st' i ss hF h hb
    simp only [ipParseSets] at h
    cases hs : ipParseSet c st i with
    | mk st1 res =>
      cases res with
      | ok sr =>
        obtain ⟨s, r1⟩ := sr
        simp only [hs] at h
        by_cases he : r1.length = i.length
        · simp [he] at h
        · simp only [he, ↓reduceIte] at h
          cases hrest : ipParseSets c fuel st1 r1 with
          | mk st2 res2 =>
            cases res2 with
            | ok ss' =>
              simp only [hrest, Prod.mk.injEq, Res.ok.injEq] at h
              obtain ⟨e0, e1⟩ := h
              subst e0 e1
              simp only [List.all_cons, Bool.and_eq_true] at hb
              obtain ⟨a1, a2⟩ := ipParseSet_cost0 c hw W M hW _ _ _ _ _ hF hs hb.1
              obtain ⟨b1, b2⟩ := ih _ _ _ _ a1 hrest hb.2
              simp only [List.map_cons, List.sum_cons]
              exact ⟨b1, by omega⟩
            | err => simp [hrest] at h
            | panic => simp [hrest] at h
            | overflow => simp [hrest] at h
      | err =>
        simp only [hs, Prod.mk.injEq, Res.ok.injEq] at h
        obtain ⟨e0, e1⟩ := h
        subst e0 e1
        have := ipParseSet_err c _ _ _ hs
        subst this
        exact ⟨hF, by simp⟩
      | panic => simp [hs] at h
      | overflow => simp [hs] at h

theorem parseIpfix_cost0 (c : Config) (hw : 1 ≤ c.t.ipSetHdr.wireLen) (W M : Nat) (hW : 115 + 112 * M ≤ W)
    (st st' : PState) (i : Bytes) (p : Packet) (r : Bytes)
    (hF : FLe M st = true) (h : parseIpfix c st i = (st', .ok (p, r))) (hb : flePkt M p = true) :
    FLe M st' = true ∧ packetSize p + W * r.length ≤ 64 + W * i.length := by
  unfold parseIpfix at h
  cases hh : parseLayout c.t.protoFromU8 c.t.ipHdr i with
  | none => simp [hh] at h
  | some hr =>
    obtain ⟨hd, r1⟩ := hr
    simp only [hh] at h
    cases ht : takeN (c.t.ipHdr.get "length" hd - 16) r1 with
    | none => simp [ht] at h
    | some br =>
      obtain ⟨body, r2⟩ := br
      simp only [ht] at h
      have a := parseLayout_len hh
      obtain ⟨t1, t2⟩ := takeN_len ht
      cases hs : ipParseSets c (body.length + 1) st body with
      | mk st1 res =>
        cases res with
        | ok ss =>
          simp only [hs, Prod.mk.injEq, Res.ok.injEq] at h
          obtain ⟨e0, e1, e2⟩ := h
          subst e0 e1 e2
          simp only [flePkt] at hb
          obtain ⟨b1, b2⟩ := ipParseSets_cost0 c hw W M hW _ _ _ _ _ hF hs hb
          have : W * r2.length + W * body.length ≤ W * i.length := mul_add_le (by omega)
          simp only [packetSize]
          exact ⟨b1, by omega⟩
        | err => simp [hs] at h
        | panic => simp [hs] at h
        | overflow => simp [hs] at h

/-! ### dispatch and the packet loop -/

theorem parseVersioned_cost0 (c : Config) (hc : costOk c.t = true) (W M : Nat) (hW : 115 + 112 * M ≤ W)
    (st st' : PState) (kind : Nat) (body : Bytes) (p : Packet) (r : Bytes) (hF : FLe M st = true)
    (h : parseVersioned c st kind body = (st', .ok p r)) (hb : flePkt M p = true) :
    FLe M st' = true ∧ packetSize p + W * r.length ≤ 64 + W * body.length := by
  obtain ⟨c5, c7, c9, c10⟩ := (costOk_iff c.t).1 hc
  unfold parseVersioned at h
  by_cases h5 : kind = 5
  · rw [if_pos h5] at h
    cases hp : parseFixed c c.t.v5Hdr c.t.v5Rec body with
    | none => simp [hp] at h
    | some x =>
      obtain ⟨⟨hd, rs⟩, r1⟩ := x
      simp only [hp, Prod.mk.injEq, Step.ok.injEq] at h
      obtain ⟨e0, e1, e2⟩ := h
      subst e0 e1 e2
      have := parseFixed_count_le c _ _ c5 _ _ _ _ hp
      have : W * r1.length + W * rs.length ≤ W * body.length := mul_add_le this
      have := mul_le_of_le (show 56 ≤ W by omega) rs.length
      simp only [packetSize]
      exact ⟨hF, by omega⟩
  · rw [if_neg h5] at h
    by_cases h7 : kind = 7
    · rw [if_pos h7] at h
      cases hp : parseFixed c c.t.v7Hdr c.t.v7Rec body with
      | none => simp [hp] at h
      | some x =>
        obtain ⟨⟨hd, rs⟩, r1⟩ := x
        simp only [hp, Prod.mk.injEq, Step.ok.injEq] at h
        obtain ⟨e0, e1, e2⟩ := h
        subst e0 e1 e2
        have := parseFixed_count_le c _ _ c7 _ _ _ _ hp
        have : W * r1.length + W * rs.length ≤ W * body.length := mul_add_le this
        have := mul_le_of_le (show 60 ≤ W by omega) rs.length
        simp only [packetSize]
        exact ⟨hF, by omega⟩
    · rw [if_neg h7] at h
      by_cases h9 : kind = 9
      · rw [if_pos h9] at h
        simp only [Prod.mk.injEq] at h
        obtain ⟨e0, e1⟩ := h
        have e2 := B3.liftRes_ok e1
        have : parseV9 c st body = (st', .ok (p, r)) := by rw [← e0, ← e2]
        exact parseV9_cost0 c c9 W M hW _ _ _ _ _ hF this hb
      · rw [if_neg h9] at h
        by_cases h10 : kind = 10
        · rw [if_pos h10] at h
          simp only [Prod.mk.injEq] at h
          obtain ⟨e0, e1⟩ := h
          have e2 := B3.liftRes_ok e1
          have : parseIpfix c st body = (st', .ok (p, r)) := by rw [← e0, ← e2]
          exact parseIpfix_cost0 c c10 W M hW _ _ _ _ _ hF this hb
        · rw [if_neg h10] at h
          simp at h

theorem parsePacket_ok_cost0 (c : Config) (hc : costOk c.t = true) (W M : Nat) (hW : 115 + 112 * M ≤ W)
    (st st' : PState) (buf : Bytes) (p : Packet) (rest : Bytes) (hF : FLe M st = true)
    (h : parsePacket c st buf = (st', .ok p rest)) (hb : flePkt M p = true) :
    FLe M st' = true ∧ packetSize p + W * rest.length ≤ W * buf.length := by
  rcases parsePacket_inv c st st' buf _ h with ⟨_, _, e⟩ | ⟨_, _, _, _, e⟩ | ⟨_, _, _, _, _, e⟩ | ⟨v, kind, hv, _, _, hp⟩
  · cases e
  · cases e
  · cases e
  · obtain ⟨a1, a2⟩ := parseVersioned_cost0 c hc W M hW _ _ _ _ _ _ hF hp hb
    have := drop2_len hv
    have : W * (buf.drop 2).length + W * 2 = W * buf.length := mul_add_eq this
    exact ⟨a1, by omega⟩

/-- summation over the packets of one buffer, WITHOUT honesty -/
theorem parseBytesF_cost0 (c : Config) (hc : costOk c.t = true) (W M : Nat) (hW : 115 + 112 * M ≤ W) :
    ∀ (fuel : Nat) (st st' : PState) (buf : Bytes) (pkts : List Packet), FLe M st = true →
      parseBytesF c fuel st buf = (st', .done pkts) → FLePkts M pkts = true →
      (pkts.map packetSize).sum ≤ W * buf.length + 160 := by
  intro fuel
  induction fuel with
  | zero => intro st st' buf pkts _ h _; simp [parseBytesF] at h
  | succ fuel ih =>
    intro st st' buf pkts hF h hb
    simp only [parseBytesF] at h
    by_cases he : buf.isEmpty = true
    · simp only [he, ↓reduceIte, Prod.mk.injEq, Outcome.done.injEq] at h
      rw [← h.2]; simp
    · simp only [he, Bool.false_eq_true, ↓reduceIte] at h
      cases hp : parsePacket c st buf with
      | mk st1 step =>
        cases step with
        | ok pkt rest =>
          simp only [hp] at h
          by_cases hr : rest.isEmpty = true
          · simp only [hr, ↓reduceIte, Prod.mk.injEq, Outcome.done.injEq] at h
            obtain ⟨_, e⟩ := h
            subst e
            simp only [FLePkts, List.all_cons, List.all_nil, Bool.and_true] at hb
            obtain ⟨_, a2⟩ := parsePacket_ok_cost0 c hc W M hW _ _ _ _ _ hF hp hb
            simp only [List.map_cons, List.map_nil, List.sum_cons, List.sum_nil]
            omega
          · simp only [hr, Bool.false_eq_true, ↓reduceIte] at h
            cases hrec : parseBytesF c fuel st1 rest with
            | mk st2 out =>
              simp only [hrec, Prod.mk.injEq] at h
              obtain ⟨_, e⟩ := h
              obtain ⟨ps, e1, e2⟩ := Outcome_cons_done e
              subst e1 e2
              simp only [FLePkts, List.all_cons, Bool.and_eq_true] at hb
              obtain ⟨a1, a2⟩ := parsePacket_ok_cost0 c hc W M hW _ _ _ _ _ hF hp hb.1
              have := ih _ _ _ _ a1 hrec hb.2
              simp only [List.map_cons, List.sum_cons]
              omega
        | fail e =>
          simp only [hp, Prod.mk.injEq, Outcome.done.injEq] at h
          obtain ⟨_, e1⟩ := h
          subst e1
          have := parsePacket_fail_cost c _ _ _ _ hp
          have := mul_le_of_le (show 2 ≤ W by omega) buf.length
          simp only [List.map_cons, List.map_nil, List.sum_cons, List.sum_nil]
          omega
        | unallowed =>
          simp only [hp, Prod.mk.injEq, Outcome.done.injEq] at h
          rw [← h.2]; simp
        | panic => simp [hp] at h
        | overflow => simp [hp] at h

/-! ### the maxima satisfy the invariants -/

theorem le_lmax : ∀ (l : List Nat) (x : Nat), x ∈ l → x ≤ lmax l := by
  intro l
  induction l with
  | nil => intro x h; cases h
  | cons y ys ih =>
    intro x h
    simp only [lmax]
    rcases List.mem_cons.1 h with e | e
    · subst e; exact Nat.le_max_left _ _
    · exact Nat.le_trans (ih x e) (Nat.le_max_right _ _)

theorem all_le_of_lmax {α : Type} (f : α → Nat) (l : List α) (M : Nat) (h : lmax (l.map f) ≤ M) :
    l.all (fun a => decide (f a ≤ M)) = true := by
  rw [List.all_eq_true]
  intro a ha
  have := le_lmax _ _ (List.mem_map_of_mem (f := f) ha)
  simp only [decide_eq_true_eq]
  omega

theorem FLe_of_max (st : PState) (M : Nat) (h : stateMaxFields st ≤ M) : FLe M st = true := by
  unfold stateMaxFields at h
  have h1 : lmax (st.v9T.map fun e => e.2.fields.length) ≤ M := Nat.le_trans (Nat.le_max_left _ _) h
  have h23 := Nat.le_trans (Nat.le_max_right _ _) h
  have h2 : lmax (st.ipT.map fun e => e.2.fields.length) ≤ M := Nat.le_trans (Nat.le_max_left _ _) h23
  have h3 : lmax (st.ipO.map fun e => e.2.fields.length) ≤ M := Nat.le_trans (Nat.le_max_right _ _) h23
  rw [FLe_iff]
  exact ⟨all_le_of_lmax _ _ _ h1, all_le_of_lmax _ _ _ h2, all_le_of_lmax _ _ _ h3⟩

theorem fleV9Body_of_max (b : V9Body) (M : Nat) (h : v9BodyMaxFields b ≤ M) : fleV9Body M b = true := by
  cases b with
  | templates ts pad => exact all_le_of_lmax (fun t : V9Template => t.fields.length) ts M h
  | _ => rfl

theorem fleIpBody_of_max (b : IpBody) (M : Nat) (h : ipBodyMaxFields b ≤ M) : fleIpBody M b = true := by
  cases b with
  | template t => simpa [fleIpBody, fleIpT, ipBodyMaxFields] using h
  | optTemplate t => simpa [fleIpBody, fleIpO, ipBodyMaxFields] using h
  | _ => rfl

theorem flePkt_of_max (p : Packet) (M : Nat) (h : pktMaxFields p ≤ M) : flePkt M p = true := by
  cases p with
  | v9 hd ss =>
    simp only [flePkt, List.all_eq_true]
    intro s hs
    exact fleV9Body_of_max _ _ (Nat.le_trans (le_lmax _ _ (List.mem_map_of_mem (f := fun s : V9Set => v9BodyMaxFields s.body) hs)) h)
  | ipfix hd ss =>
    simp only [flePkt, List.all_eq_true]
    intro s hs
    exact fleIpBody_of_max _ _ (Nat.le_trans (le_lmax _ _ (List.mem_map_of_mem (f := fun s : IpSet => ipBodyMaxFields s.body) hs)) h)
  | _ => rfl

theorem FLePkts_of_max (pkts : List Packet) (M : Nat) (h : pktsMaxFields pkts ≤ M) : FLePkts M pkts = true := by
  simp only [FLePkts, List.all_eq_true]
  intro p hp
  exact flePkt_of_max _ _ (Nat.le_trans (le_lmax _ _ (List.mem_map_of_mem (f := pktMaxFields) hp)) h)

/-- `184 + (115 + 112·M)·b ≤ 184·(b + 1)·(1 + M)` -/
theorem product_arith (b M : Nat) : 184 + (115 + 112 * M) * b ≤ 184 * (b + 1) * (1 + M) := by
  have e1 : (115 + 112 * M) * b = 115 * b + 112 * (M * b) := by
    rw [Nat.add_mul, Nat.mul_assoc]
  have e2 : 184 * (b + 1) * (1 + M) = 184 * b + 184 + 184 * (M * b) + 184 * M := by
    rw [Nat.mul_add, Nat.mul_one, Nat.mul_add, Nat.mul_one, Nat.add_mul, Nat.mul_assoc, Nat.mul_comm b M]
    omega
  rw [e1, e2]
  omega

end Netflow.P5
