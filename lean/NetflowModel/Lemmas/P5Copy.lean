/-
  Lemmas/P5Copy.lean — helper lemmas for `Props/C15b.lean`, first part: the bytes copied by the
  packet loop of `parse_bytes` (`Cost.copyCost`).
    * upper bound: every element of the result accounts for at most one copy of the buffer;
    * the extremal family `Cost.packed n` (header-only IPFIX messages): closed form of the cost.
-/
import NetflowModel.CostCopy
import NetflowModel.Lemmas.A2State
import NetflowModel.Props.C02
namespace Netflow.P5
open Netflow Cost

/-! ### small arithmetic (nonlinear steps that `omega` cannot do) -/

theorem mul_le_of_le {k W : Nat} (h : k ≤ W) (n : Nat) : k * n ≤ W * n := Nat.mul_le_mul_right n h

theorem mul_add_le {W a b c : Nat} (h : a + b ≤ c) : W * a + W * b ≤ W * c := by
  rw [← Nat.mul_add]; exact Nat.mul_le_mul_left W h

theorem mul_add_eq {W a b c : Nat} (h : a + b = c) : W * a + W * b = W * c := by
  rw [← Nat.mul_add, h]

theorem sq_succ (n : Nat) : (n + 1) * (n + 1) = n * n + 2 * n + 1 := by
  rw [Nat.add_mul, Nat.mul_add, Nat.mul_one, Nat.one_mul]; omega

/-! ### upper bound -/

theorem outPkts_cons (p : Packet) (o : Outcome) : outPkts (o.cons p) = p :: outPkts o := by
  cases o <;> rfl

/-- the copy inside the error kind is at most the buffer -/
theorem errCopy_le (c : Config) (st st' : PState) (buf : Bytes) (e : ErrKind)
    (h : parsePacket c st buf = (st', .fail e)) : errCopy e + 2 ≤ buf.length ∨ errCopy e = 0 := by
  rcases parsePacket_inv c st st' buf _ h with ⟨_, _, e1⟩ | ⟨_, _, _, _, e1⟩ | ⟨v, hv, _, _, _, e1⟩ | ⟨v, kind, hv, _, _, hp⟩
  · simp only [Step.fail.injEq] at e1; subst e1; exact Or.inr rfl
  · cases e1
  · simp only [Step.fail.injEq] at e1; subst e1
    have := (beU_some hv).1
    left; simp only [errCopy, List.length_drop]; omega
  · have := (beU_some hv).1
    rcases Props.C02_versioned_fail c _ _ _ _ _ hp with he | he
    · subst he; left; simp only [errCopy, List.length_drop]; omega
    · subst he; left; simp only [errCopy, List.length_drop]; omega

/-- every element of the result accounts for at most one copy of the buffer (any fuel, any way the
    call ends) -/
theorem copyLoop_le (c : Config) : ∀ (fuel : Nat) (st : PState) (buf : Bytes),
    copyLoop c fuel st buf ≤ buf.length * (outPkts (parseBytesF c fuel st buf).2).length := by
  intro fuel
  induction fuel with
  | zero => intro st buf; simp [copyLoop]
  | succ fuel ih =>
    intro st buf
    unfold copyLoop parseBytesF
    by_cases he : buf.isEmpty = true
    · simp [he]
    · simp only [he, Bool.false_eq_true, ↓reduceIte]
      cases hp : parsePacket c st buf with
      | mk st1 step =>
        cases step with
        | ok pkt rest =>
          simp only
          have hl := parsePacket_progress c _ _ _ _ _ hp
          by_cases hr : rest.isEmpty = true
          · simp only [hr, ↓reduceIte, outPkts, List.length_cons, List.length_nil]
            omega
          · simp only [hr, Bool.false_eq_true, ↓reduceIte, outPkts_cons, List.length_cons]
            have h1 := ih st1 rest
            have h2 : rest.length * (outPkts (parseBytesF c fuel st1 rest).2).length ≤
                buf.length * (outPkts (parseBytesF c fuel st1 rest).2).length :=
              Nat.mul_le_mul_right _ (by omega)
            rw [Nat.mul_succ]
            omega
        | fail e =>
          simp only [outPkts, List.length_cons, List.length_nil]
          rcases errCopy_le c _ _ _ _ hp with h | h <;> omega
        | unallowed => simp
        | panic => simp
        | overflow => simp

/-! ### the extremal family -/

theorem packed_length (n : Nat) : (packed n).length = 16 * n := by
  induction n with
  | zero => rfl
  | succ n ih => simp only [packed, List.length_append, ih, hdrOnlyIpfix, List.length_cons, List.length_nil]; omega

theorem packed_isEmpty (n : Nat) : (packed n).isEmpty = decide (n = 0) := by
  cases n with
  | zero => rfl
  | succ n => simp [packed, hdrOnlyIpfix]

/-- `Σ_{i<n} 16·(n-1-i) = 8·n·(n-1)`, without subtraction -/
theorem packedCopies_closed (n : Nat) : packedCopies n + 8 * n = 8 * (n * n) := by
  induction n with
  | zero => rfl
  | succ n ih =>
    simp only [packedCopies]
    rw [sq_succ]
    omega

theorem beU_append {w : Nat} {i r : Bytes} {v : Nat} (t : Bytes) (h : beU w i = some (v, r)) :
    beU w (i ++ t) = some (v, r ++ t) := by
  obtain ⟨h1, h2, h3⟩ := beU_some h
  subst h2 h3
  have : w ≤ (i ++ t).length := by rw [List.length_append]; omega
  rw [beU_of_le this, List.take_append_of_le_length h1, List.drop_append_of_le_length h1]

/-- the layout parser only looks at the bytes it consumes -/
theorem parseFields_append (proto : Nat → Nat) (t : Bytes) :
    ∀ (lay : Layout) (acc : List Nat) (i : Bytes) (vals : List Nat) (r : Bytes),
      parseFields proto lay acc i = some (vals, r) → parseFields proto lay acc (i ++ t) = some (vals, r ++ t) := by
  intro lay
  induction lay with
  | nil =>
    intro acc i vals r h
    simp only [parseFields, Option.some.injEq, Prod.mk.injEq] at h ⊢
    exact ⟨h.1, by rw [h.2]⟩
  | cons f fs ih =>
    intro acc i vals r h
    unfold parseFields at h ⊢
    cases hk : f.kind with
    | wire w =>
      simp only [hk] at h ⊢
      cases hb : beU w i with
      | none => simp [hb] at h
      | some vr =>
        obtain ⟨v, r1⟩ := vr
        simp only [hb] at h
        rw [beU_append t hb]
        exact ih _ _ _ _ h
    | const v =>
      simp only [hk] at h ⊢
      exact ih _ _ _ _ h
    | protoOf s =>
      simp only [hk] at h ⊢
      exact ih _ _ _ _ h

theorem packOk_iff (c : Config) : packOk c = true ↔
    c.allowed.contains 10 = true ∧ c.t.dispatch.lookup 10 = some 10 ∧
    (∃ h, parseLayout c.t.protoFromU8 c.t.ipHdr (hdrOnlyIpfix.drop 2) = some (h, []) ∧ c.t.ipHdr.get "length" h = 16) ∧
    1 ≤ c.t.ipSetHdr.wireLen := by
  unfold packOk
  simp only [Bool.and_eq_true, beq_iff_eq, decide_eq_true_eq, and_assoc]
  constructor
  · rintro ⟨h1, h2, h3, h4⟩
    refine ⟨h1, h2, ?_, h4⟩
    split at h3
    · next h r heq =>
      simp only [Bool.and_eq_true, List.isEmpty_iff, beq_iff_eq] at h3
      obtain ⟨e1, e2⟩ := h3
      subst e1
      exact ⟨h, heq, e2⟩
    · simp at h3
  · rintro ⟨h1, h2, ⟨h, h3, h3'⟩, h4⟩
    refine ⟨h1, h2, ?_, h4⟩
    rw [h3]
    simp [h3']

/-- a header-only IPFIX message in front of ANY tail parses to a message without sets, leaves the
    caches alone, and returns the tail -/
theorem parsePacket_hdrOnly (c : Config) (hk : packOk c = true) (st : PState) (tail : Bytes) :
    ∃ h, parsePacket c st (hdrOnlyIpfix ++ tail) = (st, .ok (.ipfix h []) tail) := by
  obtain ⟨ha, hd, ⟨h, hl, hg⟩, hw⟩ := (packOk_iff c).1 hk
  refine ⟨h, ?_⟩
  have hv : beU 2 (hdrOnlyIpfix ++ tail) = some (10, hdrOnlyIpfix.drop 2 ++ tail) :=
    beU_append tail (by decide)
  have hlay : parseLayout c.t.protoFromU8 c.t.ipHdr (hdrOnlyIpfix.drop 2 ++ tail) = some (h, tail) := by
    have := parseFields_append c.t.protoFromU8 tail _ _ _ _ _ hl
    simpa [parseLayout] using this
  have hset : parseLayout c.t.protoFromU8 c.t.ipSetHdr [] = none := by
    rw [parseLayout_none_iff]; simp only [List.length_nil]; omega
  have hip : parseIpfix c st (hdrOnlyIpfix.drop 2 ++ tail) = (st, .ok (.ipfix h [], tail)) := by
    unfold parseIpfix
    simp only [hlay, hg, Nat.sub_self]
    have ht : takeN 0 tail = some ([], tail) := by simp [takeN]
    simp only [ht, List.length_nil, Nat.zero_add]
    simp only [ipParseSets, ipParseSet, hset]
  unfold parsePacket
  simp only [hv, ha, ↓reduceIte, hd]
  unfold parseVersioned
  simp only [hip, liftRes]
  simp

/-- the loop's copies on `n` header-only messages: `16·(n-1) + 16·(n-2) + … + 0` -/
theorem copyLoop_packed (c : Config) (hk : packOk c = true) :
    ∀ (n fuel : Nat) (st : PState), n ≤ fuel → copyLoop c fuel st (packed n) = packedCopies n := by
  intro n
  induction n with
  | zero =>
    intro fuel st _
    cases fuel with
    | zero => rfl
    | succ f => simp [copyLoop, packed, packedCopies]
  | succ n ih =>
    intro fuel st hf
    cases fuel with
    | zero => omega
    | succ f =>
      obtain ⟨h, hp⟩ := parsePacket_hdrOnly c hk st (packed n)
      have hne : (packed (n + 1)).isEmpty = false := by rw [packed_isEmpty]; simp
      unfold copyLoop
      rw [hne]
      simp only [Bool.false_eq_true, ↓reduceIte]
      have : packed (n + 1) = hdrOnlyIpfix ++ packed n := rfl
      rw [this, hp]
      simp only [packedCopies, packed_length]
      rw [ih f st (by omega)]
      by_cases h0 : n = 0
      · subst h0; simp [packed, packedCopies]
      · have : (packed n).isEmpty = false := by rw [packed_isEmpty]; simp [h0]
        simp [this]

/-- … and the number of elements returned is `n` -/
theorem parseBytesF_packed (c : Config) (hk : packOk c = true) :
    ∀ (n fuel : Nat) (st : PState), n < fuel →
      ∃ pkts, parseBytesF c fuel st (packed n) = (st, .done pkts) ∧ pkts.length = n := by
  intro n
  induction n with
  | zero =>
    intro fuel st hf
    cases fuel with
    | zero => omega
    | succ f => exact ⟨[], by simp [parseBytesF, packed], rfl⟩
  | succ n ih =>
    intro fuel st hf
    cases fuel with
    | zero => omega
    | succ f =>
      obtain ⟨h, hp⟩ := parsePacket_hdrOnly c hk st (packed n)
      have hne : (packed (n + 1)).isEmpty = false := by rw [packed_isEmpty]; simp
      have e : packed (n + 1) = hdrOnlyIpfix ++ packed n := rfl
      unfold parseBytesF
      rw [hne]
      simp only [Bool.false_eq_true, ↓reduceIte]
      rw [e, hp]
      simp only
      by_cases h0 : n = 0
      · subst h0
        exact ⟨[.ipfix h []], by simp [packed], rfl⟩
      · have : (packed n).isEmpty = false := by rw [packed_isEmpty]; simp [h0]
        simp only [this, Bool.false_eq_true, ↓reduceIte]
        obtain ⟨pkts, a1, a2⟩ := ih f st (by omega)
        rw [a1]
        exact ⟨.ipfix h [] :: pkts, by simp [Outcome.cons], by simp [a2]⟩

end Netflow.P5
