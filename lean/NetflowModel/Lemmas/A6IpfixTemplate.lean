/-
  Lemmas/A6IpfixTemplate.lean — layers (b) and (c) of the C05 print-then-parse proof: one IPFIX
  template field specifier, a template record followed by set padding, an options template record.
-/
import NetflowModel.Lemmas.A6IpfixBytes
import NetflowModel.Spec.Stream
namespace Netflow
open Spec

/-! ### generic loop round trips -/

theorem flatMap_length_ge_a6 {α : Type} (enc : α → Bytes) (k : Nat) (as : List α)
    (h : ∀ a ∈ as, k ≤ (enc a).length) : k * as.length ≤ (as.flatMap enc).length := by
  induction as with
  | nil => simp
  | cons a as ih =>
    have h1 := h a List.mem_cons_self
    have h2 := ih (fun b hb => h b (List.mem_cons_of_mem _ hb))
    simp only [List.flatMap_cons, List.length_append, List.length_cons, Nat.mul_succ]
    omega

/-- `many0` over a printed list followed by a tail on which the element parser fails returns
    exactly the list and the tail -/
theorem many0F_roundtrip {α : Type} (p : P α) (enc : α → Bytes) (ok : α → Prop)
    (hp : ∀ a r, ok a → p (enc a ++ r) = some (a, r)) (hpos : ∀ a, ok a → 0 < (enc a).length) :
    ∀ (as : List α) (fuel : Nat) (pad : Bytes), (∀ a ∈ as, ok a) → p pad = none → as.length < fuel →
      many0F p fuel (as.flatMap enc ++ pad) = .ok (as, pad) := by
  intro as
  induction as with
  | nil =>
    intro fuel pad _ hpad hf
    cases fuel with
    | zero => omega
    | succ f => simp [many0F, hpad]
  | cons a as ih =>
    intro fuel pad hok hpad hf
    cases fuel with
    | zero => omega
    | succ f =>
      have hoka := hok a List.mem_cons_self
      simp only [List.flatMap_cons, List.append_assoc, many0F]
      rw [hp a _ hoka]
      simp only
      have hl := hpos a hoka
      have hne : ¬ (as.flatMap enc ++ pad).length = (enc a ++ (as.flatMap enc ++ pad)).length := by
        simp only [List.length_append]; omega
      rw [if_neg hne, ih f pad (fun b hb => hok b (List.mem_cons_of_mem _ hb)) hpad (by simp at hf; omega)]

theorem countP_roundtrip {α : Type} (p : P α) (enc : α → Bytes) (ok : α → Prop)
    (hp : ∀ a r, ok a → p (enc a ++ r) = some (a, r)) :
    ∀ (as : List α) (r : Bytes), (∀ a ∈ as, ok a) → countP p as.length (as.flatMap enc ++ r) = some (as, r) := by
  intro as
  induction as with
  | nil => intro r _; simp [countP]
  | cons a as ih =>
    intro r hok
    simp only [List.flatMap_cons, List.append_assoc, List.length_cons, countP]
    rw [hp a _ (hok a List.mem_cons_self)]
    simp only
    rw [ih r (fun b hb => hok b (List.mem_cons_of_mem _ hb))]

/-! ### (b) one field specifier -/

/-- a field specifier an RFC 7011 exporter can write: information element id below the
    enterprise bit, 16-bit length, 32-bit enterprise number -/
def IpTFieldOk (f : IpTField) : Bool :=
  decide (f.typ < 32768) && decide (f.len < 65536) &&
  (match f.ent with | some pen => decide (pen < 4294967296) | none => true)

theorem encIpTField_length_pos (f : IpTField) : 4 ≤ (encIpTField f).length := by
  unfold encIpTField
  cases f.ent <;> simp [toBE_length]

theorem parseIpTField_enc (f : IpTField) (r : Bytes) (hf : IpTFieldOk f = true) :
    parseIpTField (encIpTField f ++ r) = some (f, r) := by
  obtain ⟨typ, len, ent⟩ := f
  simp only [IpTFieldOk, Bool.and_eq_true, decide_eq_true_eq] at hf
  obtain ⟨⟨h1, h2⟩, h3⟩ := hf
  cases ent with
  | none =>
    simp only [encIpTField, List.append_assoc, parseIpTField]
    rw [beU2_toBE (by omega), ]
    simp only
    rw [beU2_toBE h2]
    simp only
    rw [if_neg (by omega)]
  | some pen =>
    simp only [decide_eq_true_eq] at h3
    simp only [encIpTField, List.append_assoc, parseIpTField]
    rw [beU2_toBE (by omega)]
    simp only
    rw [beU2_toBE h2]
    simp only
    rw [if_pos (by omega), beU4_toBE h3]
    simp only [Nat.add_sub_cancel]

/-- the exact condition under which the greedy field loop of `Template::parse` stops at the set
    padding: fewer than 4 bytes, or 4..7 bytes that start with the enterprise bit set -/
def padStopsFields (pad : Bytes) : Bool :=
  decide (pad.length < 4) || (decide (pad.length < 8) && decide (32767 < beNat (pad.take 2)))

theorem parseIpTField_none_iff (pad : Bytes) : parseIpTField pad = none ↔ padStopsFields pad = true := by
  unfold parseIpTField padStopsFields
  by_cases h4 : pad.length < 4
  · simp only [h4, decide_true, Bool.true_or, iff_true]
    by_cases h2 : 2 ≤ pad.length
    · rw [beU_of_le h2]
      simp only
      have : beU 2 (List.drop 2 pad) = none := by
        simp only [beU]; rw [if_neg (by rw [List.length_drop]; omega)]
      rw [this]
    · have : beU 2 pad = none := by simp only [beU]; rw [if_neg h2]
      rw [this]
  · simp only [h4, decide_false, Bool.false_or, Bool.and_eq_true, decide_eq_true_eq]
    rw [beU_of_le (by omega)]
    simp only
    rw [beU_of_le (by rw [List.length_drop]; omega)]
    simp only
    by_cases ht : beNat (List.take 2 pad) > 32767
    · rw [if_pos ht]
      by_cases h8 : pad.length < 8
      · have : beU 4 (List.drop 2 (List.drop 2 pad)) = none := by
          simp only [beU]; rw [if_neg (by simp only [List.length_drop]; omega)]
        rw [this]
        simp [h8]; omega
      · rw [beU_of_le (by simp only [List.length_drop]; omega)]
        simp [h8]
    · rw [if_neg ht]
      simp; omega

theorem padStopsFields_of_short {pad : Bytes} (h : pad.length < 4) : padStopsFields pad = true := by
  simp [padStopsFields, h]

/-! ### (c) template record + padding, options template record -/

/-- a template record an exporter can write and the crate accepts: 16-bit id, 16-bit field count,
    writable field specifiers, and (the crate's `is_valid`) at least one field of non-zero length -/
def IpTemplateOk (t : IpTemplateSpec) : Bool :=
  decide (t.id < 65536) && decide (t.fields.length < 65536) && t.fields.all IpTFieldOk && ipValid t.fields

theorem parseIpTemplate_enc (t : IpTemplateSpec) (pad : Bytes) (ht : IpTemplateOk t = true)
    (hpad : padStopsFields pad = true) :
    parseIpTemplate (encIpTemplate t ++ pad) =
      .ok { id := t.id, fieldCount := t.fields.length, fields := t.fields, pad := pad } := by
  simp only [IpTemplateOk, Bool.and_eq_true, decide_eq_true_eq, List.all_eq_true] at ht
  obtain ⟨⟨⟨h1, h2⟩, h3⟩, _⟩ := ht
  simp only [encIpTemplate, List.append_assoc, parseIpTemplate]
  rw [beU2_toBE h1]
  simp only
  rw [beU2_toBE h2]
  simp only [many0]
  have hlen : t.fields.length < (t.fields.flatMap encIpTField ++ pad).length + 1 := by
    have := flatMap_length_ge_a6 encIpTField 4 t.fields (fun a _ => encIpTField_length_pos a)
    rw [List.length_append]; omega
  rw [many0F_roundtrip parseIpTField encIpTField (fun f => IpTFieldOk f = true)
    (fun a r h => parseIpTField_enc a r h) (fun a _ => by have := encIpTField_length_pos a; omega)
    t.fields _ pad h3 ((parseIpTField_none_iff pad).2 hpad) hlen]

def IpOptTemplateOk (t : IpOptTemplateSpec) : Bool :=
  decide (t.id < 65536) && decide (t.fields.length < 65536) && decide (t.scopeCount ≤ t.fields.length) &&
  t.fields.all IpTFieldOk && ipValid t.fields

theorem parseIpOptTemplate_enc (t : IpOptTemplateSpec) (pad : Bytes) (ht : IpOptTemplateOk t = true) :
    parseIpOptTemplate (encIpOptTemplate t ++ pad) =
      .ok { id := t.id, fieldCount := t.fields.length, scopeCount := t.scopeCount, fields := t.fields, pad := pad } := by
  simp only [IpOptTemplateOk, Bool.and_eq_true, decide_eq_true_eq, List.all_eq_true] at ht
  obtain ⟨⟨⟨⟨h1, h2⟩, h3⟩, h4⟩, _⟩ := ht
  simp only [encIpOptTemplate, List.append_assoc, parseIpOptTemplate]
  rw [beU2_toBE h1]
  simp only
  rw [beU2_toBE h2]
  simp only
  rw [beU2_toBE (by omega)]
  simp only
  rw [if_pos h3, countP_roundtrip parseIpTField encIpTField (fun f => IpTFieldOk f = true)
    (fun a r h => parseIpTField_enc a r h) t.fields pad h4]

end Netflow
