/-
  CostPrealloc.lean — the pre-allocation term of the C15 allocation oracle (executable, oracle side only: no theorem uses it).

  nom 7.1.3's `count(p, n)` starts with `Vec::with_capacity(min(n, 65536 / size_of::<O>()))`: an announced count reserves up to
  64 KiB BEFORE a single element is parsed, whether or not the bytes are there.  The crate calls `count` for the V5/V7 record list
  (`header.count`), for every V9 template record (`field_count` — also for the attempt on which `many0(Template::parse)` ends), for both
  field lists of a V9 options template and for the field list of an IPFIX options template.  A buffer can therefore legitimately make
  one call allocate (number of such sites) × 64 KiB, which the additive constant of `Cost.allocBounded` covers only for one or two
  sites.  `preallocOf` walks the buffer the way `parseBytes` does and adds, for every `count` site the real parser reaches,
  `min(n × S, 65536)` with `S` an UPPER bound of the element size — an over-approximation of what `count` may reserve there, so adding
  it to the allowance can only make the oracle more permissive where the code really pre-allocates, never elsewhere.
-/
import NetflowModel.Parser
import NetflowModel.Fast   -- so that the calls below are compiled against the `@[csimp]` replacements (run time only)
namespace Netflow.Cost

def capSite (n elemSize : Nat) : Nat := min (n * elemSize) 65536

/-- `many0(Template::parse)` on a V9 template flowset body: every attempt that can read `template_id, field_count` reaches `count` -/
def preV9Templates : Nat → Bytes → Nat
  | 0, _ => 0
  | fuel + 1, i =>
    match beU 2 i with
    | none => 0
    | some (_, r) =>
      match beU 2 r with
      | none => 0
      | some (fc, _) =>
        capSite fc 8 +
          (match parseV9Template i with
           | some (_, r') => if r'.length = i.length then 0 else preV9Templates fuel r'
           | none => 0)

def preV9OptTemplates : Nat → Bytes → Nat
  | 0, _ => 0
  | fuel + 1, i =>
    match beU 2 i with
    | none => 0
    | some (_, r) =>
      match beU 2 r with
      | none => 0
      | some (sl, r1) =>
        match beU 2 r1 with
        | none => 0
        | some (ol, _) =>
          capSite (sl / 4) 8 + capSite (ol / 4) 8 +
            (match parseV9OptTemplate i with
             | some (_, r') => if r'.length = i.length then 0 else preV9OptTemplates fuel r'
             | none => 0)

/-- the flowsets of one V9 packet (state threaded as the parser does) -/
def preV9Sets (c : Config) : Nat → PState → Bytes → Nat
  | 0, _, _ => 0
  | n + 1, st, i =>
    if i.isEmpty then 0
    else
      match parseLayout c.t.protoFromU8 c.t.v9SetHdr i with
      | none => 0
      | some (h, r) =>
        let id := c.t.v9SetHdr.get "flowset_id" h
        let len := c.t.v9SetHdr.get "length" h
        match takeN (len - 4) r with
        | none => 0
        | some (body, _) =>
          (if id = c.t.v9TemplateId then preV9Templates (body.length + 1) body
           else if id = c.t.v9OptTemplateId then preV9OptTemplates (body.length + 1) body else 0) +
          (match v9ParseSet c st i with
           | (st', .ok (_, r')) => preV9Sets c n st' r'
           | _ => 0)

/-- the sets of one IPFIX message: only the options template calls `count` -/
def preIpSets (c : Config) : Nat → PState → Bytes → Nat
  | 0, _, _ => 0
  | fuel + 1, st, i =>
    match parseLayout c.t.protoFromU8 c.t.ipSetHdr i with
    | none => 0
    | some (h, r) =>
      let id := c.t.ipSetHdr.get "header_id" h
      let len := c.t.ipSetHdr.get "length" h
      match takeN (len - 4) r with
      | none => 0
      | some (body, _) =>
        (if id = c.t.ipOptTemplateId then
           match beU 2 body with
           | none => 0
           | some (_, b1) =>
             match beU 2 b1 with
             | none => 0
             | some (fc, b2) =>
               match beU 2 b2 with
               | none => 0
               | some (sc, _) => capSite (if sc ≤ fc then fc else min (sc + fc) 65535) 16
         else 0) +
        (match ipParseSet c st i with
         | (st', .ok (_, r')) => if r'.length = i.length then 0 else preIpSets c fuel st' r'
         | _ => 0)

def prePacket (c : Config) (st : PState) (buf : Bytes) : Nat :=
  match beU 2 buf with
  | none => 0
  | some (version, body) =>
    if c.allowed.contains version then
      match c.t.dispatch.lookup version with
      | some 5 => (match parseLayout c.t.protoFromU8 c.t.v5Hdr body with | some (h, _) => capSite (c.t.v5Hdr.get "count" h) 160 | none => 0)
      | some 7 => (match parseLayout c.t.protoFromU8 c.t.v7Hdr body with | some (h, _) => capSite (c.t.v7Hdr.get "count" h) 160 | none => 0)
      | some 9 =>
        (match parseLayout c.t.protoFromU8 c.t.v9Hdr body with
         | some (h, r) => preV9Sets c (c.t.v9Hdr.get "count" h) st r
         | none => 0)
      | some 10 =>
        (match parseLayout c.t.protoFromU8 c.t.ipHdr body with
         | some (h, r) =>
           (match takeN (c.t.ipHdr.get "length" h - 16) r with
            | some (b, _) => preIpSets c (b.length + 1) st b
            | none => 0)
         | none => 0)
      | _ => 0
    else 0

/-- what `count` may reserve during one `parse_bytes` call on `buf` from state `st` -/
def preallocF (c : Config) : Nat → PState → Bytes → Nat
  | 0, _, _ => 0
  | fuel + 1, st, buf =>
    if buf.isEmpty then 0
    else
      prePacket c st buf +
        (match parsePacket c st buf with
         | (st', .ok _ rest) => if rest.isEmpty then 0 else preallocF c fuel st' rest
         | _ => 0)

def preallocOf (c : Config) (st : PState) (buf : Bytes) : Nat := preallocF c (buf.length + 1) st buf

end Netflow.Cost
