/-
  ExportProg.lean — the V9 / IPFIX exporters as PROGRAMS read from the Rust source.

  `tools/translate_export.py` translates the statement list of `V9::to_be_bytes` and `IPFix::to_be_bytes` (v9.rs,
  ipfix.rs) — `extend_from_slice(&x.f.to_be_bytes())`, `for x in y.iter()`, `if let Enum::Variant(x) = &y`,
  `if let Some(x) = y`, the payload `match` over the scope-field kinds — into a value of `List Emit`
  (GeneratedExport.lean), with the byte width of every integer taken from the DECLARED Rust type of the field it
  reads (a small type inference over the struct / enum declarations of the same file).  `runL` interprets such a
  program over a generic tree view (`ETree`) of the model's decoded packet.  `Lemmas/G3Export.lean` proves that the
  interpretation of the regenerated programs IS the hand-written `exportV9` / `exportIpfix` of Export.lean, for every
  packet value — so the C09/C10 theorems are about the exporter the source contains NOW.
-/
import NetflowModel.Export
namespace Netflow

/-- generic view of a decoded value: what the exporter's paths walk over -/
inductive ETree where
  | num (v : Nat)
  | bytes (b : Bytes)
  | value (v : FieldValue)
  | struct (fs : List (String × ETree))
  | list (xs : List ETree)
  | variant (name : String) (payload : ETree)
  | none
  | some (t : ETree)

/-- one statement of an exporter -/
inductive Emit where
  /-- `sink.extend_from_slice(&PATH.to_be_bytes())`, PATH of integer type with `w` bytes -/
  | num (path : List String) (w : Nat)
  /-- `sink.extend_from_slice(&PATH)` / `PATH.as_slice()` for a `Vec<u8>` -/
  | bytes (path : List String)
  /-- `sink.extend_from_slice(&PATH.to_be_bytes()?)` for a `FieldValue` -/
  | value (path : List String)
  /-- `for x in PATH.iter() { body }` (also the `(_, (_, x))` pattern over a record map: its values in key order) -/
  | each (path : List String) (x : String) (body : List Emit)
  /-- `if let Enum::Variant(x) = &PATH { body }` -/
  | whenVariant (path : List String) (variant : String) (x : String) (body : List Emit)
  /-- `if let Some(x) = PATH { body }` -/
  | whenSome (path : List String) (x : String) (body : List Emit)
  /-- `match PATH { A(p) => sink.extend_from_slice(p.as_slice()), B(p) => …, … }`: every variant emits its payload -/
  | payload (path : List String)

mutual
/-- structural equality of exporter programs (the type is nested, so `deriving BEq` is not available) -/
def Emit.beq : Emit → Emit → Bool
  | .num p w, .num p' w' => p == p' && w == w'
  | .bytes p, .bytes p' => p == p'
  | .value p, .value p' => p == p'
  | .each p x b, .each p' x' b' => p == p' && x == x' && Emit.beqL b b'
  | .whenVariant p v x b, .whenVariant p' v' x' b' => p == p' && v == v' && x == x' && Emit.beqL b b'
  | .whenSome p x b, .whenSome p' x' b' => p == p' && x == x' && Emit.beqL b b'
  | .payload p, .payload p' => p == p'
  | _, _ => false
def Emit.beqL : List Emit → List Emit → Bool
  | [], [] => true
  | e :: es, e' :: es' => Emit.beq e e' && Emit.beqL es es'
  | _, _ => false
end

abbrev EEnv := List (String × ETree)

def ETree.field : ETree → String → Option ETree
  | .struct fs, f => fs.lookup f
  | _, _ => Option.none

def ETree.walk : ETree → List String → Option ETree
  | t, [] => Option.some t
  | t, f :: rest =>
    match t.field f with
    | Option.some t' => t'.walk rest
    | Option.none => Option.none

def EEnv.path (env : EEnv) : List String → Option ETree
  | [] => Option.none
  | x :: fs =>
    match env.lookup x with
    | Option.some t => t.walk fs
    | Option.none => Option.none

mutual
/-- run one statement; `.err` also stands for "the path does not exist in the tree" (never the case for the trees
    built from model packets — that is part of what G3Export proves) -/
def runE (vc : ValueCfg) : Emit → EEnv → Out Bytes
  | .num p w, env =>
    match env.path p with
    | Option.some (.num v) => .ok (toBE w v)
    | _ => .err
  | .bytes p, env =>
    match env.path p with
    | Option.some (.bytes b) => .ok b
    | _ => .err
  | .value p, env =>
    match env.path p with
    | Option.some (.value v) => v.toBE vc
    | _ => .err
  | .each p x body, env =>
    match env.path p with
    | Option.some (.list xs) => Out.concat (xs.map fun t => runL vc body ((x, t) :: env))
    | _ => .err
  | .whenVariant p variant x body, env =>
    match env.path p with
    | Option.some (.variant name t) => if name = variant then runL vc body ((x, t) :: env) else .ok []
    | _ => .err
  | .whenSome p x body, env =>
    match env.path p with
    | Option.some (.some t) => runL vc body ((x, t) :: env)
    | Option.some .none => .ok []
    | _ => .err
  | .payload p, env =>
    match env.path p with
    | Option.some (.variant _ (.bytes b)) => .ok b
    | _ => .err
/-- run a statement list left to right; the first failure wins (`?` / panic) -/
def runL (vc : ValueCfg) : List Emit → EEnv → Out Bytes
  | [], _ => .ok []
  | e :: es, env => (runE vc e env).append (runL vc es env)
end

/-! ### tree views of the model's packets (field names = the Rust field names) -/

def treeOfHeader (lay : Layout) (vals : List Nat) : ETree :=
  .struct (lay.map fun f => (f.name, .num (lay.get f.name vals)))

def treeOfTField (f : TField) : ETree :=
  .struct [("field_type_number", .num f.typ), ("field_length", .num f.len)]

def treeOfV9Template (t : V9Template) : ETree :=
  .struct [("template_id", .num t.id), ("field_count", .num t.fieldCount), ("fields", .list (t.fields.map treeOfTField))]

def treeOfV9OptTemplate (t : V9OptTemplate) : ETree :=
  .struct [("template_id", .num t.id), ("options_scope_length", .num t.scopeLen), ("options_length", .num t.optLen),
           ("scope_fields", .list (t.scope.map treeOfTField)), ("option_fields", .list (t.opts.map treeOfTField))]

def treeOfRec (r : Rec) : ETree := .list (r.map fun e => .value e.2.2)

def scopeVariantName (disc : Nat) : String :=
  if disc = 1 then "System" else if disc = 2 then "Interface" else if disc = 3 then "LineCard"
  else if disc = 4 then "NetFlowCache" else "Template"

def treeOfV9Body : V9Body → ETree
  | .templates ts pad => .variant "Template" (.struct [("templates", .list (ts.map treeOfV9Template)), ("padding", .bytes pad)])
  | .optTemplates ts pad => .variant "OptionsTemplate" (.struct [("templates", .list (ts.map treeOfV9OptTemplate)), ("padding", .bytes pad)])
  | .data recs pad => .variant "Data" (.struct [("fields", .list (recs.map treeOfRec)), ("padding", .bytes pad)])
  | .optData ss os pad =>
    .variant "OptionsData" (.struct [("scope_fields", .list (ss.map fun s => .variant (scopeVariantName s.1) (.bytes s.2))),
                                     ("options_fields", .list (os.map fun o => .struct [("field_value", .bytes o.2)])),
                                     ("padding", .bytes pad)])

def treeOfV9Set (s : V9Set) : ETree :=
  .struct [("header", .struct [("flowset_id", .num s.id), ("length", .num s.len)]), ("body", treeOfV9Body s.body)]

def treeOfV9 (c : Config) (h : List Nat) (sets : List V9Set) : ETree :=
  .struct [("header", treeOfHeader c.t.v9Hdr h), ("flowsets", .list (sets.map treeOfV9Set))]

def treeOfIpTField (f : IpTField) : ETree :=
  .struct [("field_type_number", .num f.typ), ("field_length", .num f.len),
           ("enterprise_number", match f.ent with | Option.some e => .some (.num e) | Option.none => .none)]

def treeOfIpBody : IpBody → ETree
  | .template t => .variant "Template" (.struct [("template_id", .num t.id), ("field_count", .num t.fieldCount),
      ("fields", .list (t.fields.map treeOfIpTField)), ("padding", .bytes t.pad)])
  | .optTemplate t => .variant "OptionsTemplate" (.struct [("template_id", .num t.id), ("field_count", .num t.fieldCount),
      ("scope_field_count", .num t.scopeCount), ("fields", .list (t.fields.map treeOfIpTField)), ("padding", .bytes t.pad)])
  | .data recs pad => .variant "Data" (.struct [("fields", .list (recs.map treeOfRec)), ("padding", .bytes pad)])
  | .optData recs pad => .variant "OptionsData" (.struct [("fields", .list (recs.map treeOfRec)), ("padding", .bytes pad)])

def treeOfIpSet (s : IpSet) : ETree :=
  .struct [("header", .struct [("header_id", .num s.id), ("length", .num s.len)]), ("body", treeOfIpBody s.body)]

def treeOfIpfix (c : Config) (h : List Nat) (sets : List IpSet) : ETree :=
  .struct [("header", treeOfHeader c.t.ipHdr h), ("flowsets", .list (sets.map treeOfIpSet))]

/-! ### the exporter programs the hand-written `exportV9` / `exportIpfix` correspond to (G3Export proves it, and that the programs
    regenerated from the source are these) -/
namespace G3
def tfieldProg : List Emit := [.num ["b3", "field_type_number"] 2, .num ["b3", "field_length"] 2]

def v9TemplatesProg : List Emit :=
  [.each ["b1", "templates"] "b2"
     [.num ["b2", "template_id"] 2, .num ["b2", "field_count"] 2, .each ["b2", "fields"] "b3" tfieldProg],
   .bytes ["b1", "padding"]]

def v9OptTemplatesProg : List Emit :=
  [.each ["b1", "templates"] "b2"
     [.num ["b2", "template_id"] 2, .num ["b2", "options_scope_length"] 2, .num ["b2", "options_length"] 2,
      .each ["b2", "scope_fields"] "b3" tfieldProg, .each ["b2", "option_fields"] "b3" tfieldProg],
   .bytes ["b1", "padding"]]

def v9DataProg : List Emit :=
  [.each ["b1", "fields"] "b2" [.each ["b2"] "b3" [.value ["b3"]]], .bytes ["b1", "padding"]]

def v9OptDataProg : List Emit :=
  [.each ["b1", "scope_fields"] "b2" [.payload ["b2"]],
   .each ["b1", "options_fields"] "b2" [.bytes ["b2", "field_value"]],
   .bytes ["b1", "padding"]]

def v9SetProg : List Emit :=
  [.num ["b0", "header", "flowset_id"] 2, .num ["b0", "header", "length"] 2,
   .whenVariant ["b0", "body"] "Template" "b1" v9TemplatesProg,
   .whenVariant ["b0", "body"] "OptionsTemplate" "b1" v9OptTemplatesProg,
   .whenVariant ["b0", "body"] "Data" "b1" v9DataProg,
   .whenVariant ["b0", "body"] "OptionsData" "b1" v9OptDataProg]

def ipFieldProg : List Emit :=
  [.num ["b2", "field_type_number"] 2, .num ["b2", "field_length"] 2,
   .whenSome ["b2", "enterprise_number"] "b3" [.num ["b3"] 4]]

def ipTemplateProg : List Emit :=
  [.num ["b1", "template_id"] 2, .num ["b1", "field_count"] 2, .each ["b1", "fields"] "b2" ipFieldProg,
   .bytes ["b1", "padding"]]

def ipOptTemplateProg : List Emit :=
  [.num ["b1", "template_id"] 2, .num ["b1", "field_count"] 2, .num ["b1", "scope_field_count"] 2,
   .each ["b1", "fields"] "b2" ipFieldProg, .bytes ["b1", "padding"]]

def ipDataProg : List Emit :=
  [.each ["b1", "fields"] "b2" [.each ["b2"] "b3" [.value ["b3"]]], .bytes ["b1", "padding"]]

def ipSetProg : List Emit :=
  [.num ["b0", "header", "header_id"] 2, .num ["b0", "header", "length"] 2,
   .whenVariant ["b0", "body"] "Template" "b1" ipTemplateProg,
   .whenVariant ["b0", "body"] "OptionsTemplate" "b1" ipOptTemplateProg,
   .whenVariant ["b0", "body"] "Data" "b1" ipDataProg,
   .whenVariant ["b0", "body"] "OptionsData" "b1" ipDataProg]

def v9StdProg : List Emit :=
  [.num ["self", "header", "version"] 2, .num ["self", "header", "count"] 2, .num ["self", "header", "sys_up_time"] 4,
   .num ["self", "header", "unix_secs"] 4, .num ["self", "header", "sequence_number"] 4, .num ["self", "header", "source_id"] 4,
   .each ["self", "flowsets"] "b0" v9SetProg]

def ipStdProg : List Emit :=
  [.num ["self", "header", "version"] 2, .num ["self", "header", "length"] 2, .num ["self", "header", "export_time"] 4,
   .num ["self", "header", "sequence_number"] 4, .num ["self", "header", "observation_domain_id"] 4,
   .each ["self", "flowsets"] "b0" ipSetProg]
end G3

end Netflow
