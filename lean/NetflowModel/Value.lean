/-
  Value.lean — `FieldDataType`, `DataNumber`, `FieldValue` (data_number.rs): decoding a field
  of a given library type and declared length, and re-encoding it (`to_be_bytes`).
-/
import NetflowModel.Nom
namespace Netflow

/-- `FieldDataType` -/
inductive FType where
  | str | signed | unsigned | f64 | durS | durMs | durUs | durNs | ip4 | ip6 | mac | vec | proto | unknown
  deriving Repr, DecidableEq, Inhabited

/-- `DataNumber` -/
inductive DataNumber where
  | u8 (n : Nat) | u16 (n : Nat) | u24 (n : Nat) | i24 (z : Int)
  | u32 (n : Nat) | u64 (n : Nat) | u128 (n : Nat) | i32 (z : Int)
  deriving Repr, DecidableEq

/-- `FieldValue`.  Strings are kept as their UTF-8 bytes, MAC addresses as the 6 raw bytes
    (the crate stores their `AA:BB:..` text, see `macText`), floats as their 64 bits,
    protocol types as the enum discriminant. -/
inductive FieldValue where
  | str (utf8 : Bytes)
  | num (d : DataNumber)
  | f64 (bits : Nat)
  | dur (secs nanos : Nat)
  | ip4 (n : Nat)
  | ip6 (n : Nat)
  | mac (raw : Bytes)
  | vec (b : Bytes)
  | proto (disc : Nat)
  | unknown (b : Bytes)
  deriving Repr, DecidableEq

/-! ### `String::from_utf8_lossy` (std `Utf8Chunks`) -/

def isCont (b : UInt8) : Bool := b.toNat / 64 = 2            -- b & 0xC0 == 0x80

def replChar : Bytes := [0xEF, 0xBF, 0xBD]

/-- second byte admissible after lead byte `b` of a 3-byte sequence -/
def ok3 (b c : UInt8) : Bool :=
  let b := b.toNat; let c := c.toNat
  (b = 0xE0 && 0xA0 ≤ c && c ≤ 0xBF) || (0xE1 ≤ b && b ≤ 0xEC && 0x80 ≤ c && c ≤ 0xBF) ||
  (b = 0xED && 0x80 ≤ c && c ≤ 0x9F) || (0xEE ≤ b && b ≤ 0xEF && 0x80 ≤ c && c ≤ 0xBF)

/-- second byte admissible after lead byte `b` of a 4-byte sequence -/
def ok4 (b c : UInt8) : Bool :=
  let b := b.toNat; let c := c.toNat
  (b = 0xF0 && 0x90 ≤ c && c ≤ 0xBF) || (0xF1 ≤ b && b ≤ 0xF3 && 0x80 ≤ c && c ≤ 0xBF) ||
  (b = 0xF4 && 0x80 ≤ c && c ≤ 0x8F)

/-- Rust's lossy decoding: each maximal invalid prefix of an ill-formed sequence becomes U+FFFD. -/
def utf8LossyF : Nat → Bytes → Bytes
  | 0, _ => []
  | _ + 1, [] => []
  | f + 1, b :: rest =>
    let n := b.toNat
    if n < 128 then b :: utf8LossyF f rest
    else if 0xC2 ≤ n && n ≤ 0xDF then
      match rest with
      | c :: r1 => if isCont c then b :: c :: utf8LossyF f r1 else replChar ++ utf8LossyF f rest
      | [] => replChar
    else if 0xE0 ≤ n && n ≤ 0xEF then
      match rest with
      | c :: r1 =>
        if ok3 b c then
          match r1 with
          | d :: r2 => if isCont d then b :: c :: d :: utf8LossyF f r2 else replChar ++ utf8LossyF f r1
          | [] => replChar
        else replChar ++ utf8LossyF f rest
      | [] => replChar
    else if 0xF0 ≤ n && n ≤ 0xF4 then
      match rest with
      | c :: r1 =>
        if ok4 b c then
          match r1 with
          | d :: r2 =>
            if isCont d then
              match r2 with
              | e :: r3 => if isCont e then b :: c :: d :: e :: utf8LossyF f r3 else replChar ++ utf8LossyF f r2
              | [] => replChar
            else replChar ++ utf8LossyF f r1
          | [] => replChar
        else replChar ++ utf8LossyF f rest
      | [] => replChar
    else replChar ++ utf8LossyF f rest

def utf8Lossy (bs : Bytes) : Bytes := utf8LossyF (bs.length + 1) bs

/-- `mac_address::MacAddress::to_string()` : `AA:BB:CC:DD:EE:FF` -/
def macText (raw : Bytes) : Bytes :=
  let parts := raw.map fun b => [(hexDigitUpper (b.toNat / 16)).toNat.toUInt8, (hexDigitUpper (b.toNat % 16)).toNat.toUInt8]
  (parts.intersperse [58]).flatten

/-! ### `DataNumber::parse`, `DataNumber::to_be_bytes` -/

/-- the arm table of `DataNumber::parse` is GENERATED (`Generated.dnArms`): for a
    `(length, signed)` pair, which variant is produced. -/
inductive DnArm where
  | u8 | u16 | u24 | i24 | u32 | u64 | u128 | i32   -- `Self::X(j)`  resp.  `Self::I32(j as i32)` / `Self::I32(j)`
  deriving Repr, DecidableEq

abbrev DnArms := List ((Nat × Bool) × DnArm)

def DataNumber.make (arm : DnArm) (signed : Bool) (bs : Bytes) : DataNumber :=
  let n := beNat bs
  let z : Int := if signed then beInt bs else (n : Int)
  match arm with
  | .u8 => .u8 n | .u16 => .u16 n | .u24 => .u24 n | .u32 => .u32 n | .u64 => .u64 n | .u128 => .u128 n
  | .i24 => .i24 z
  | .i32 => .i32 (wrapSigned 32 (wrapUnsigned 32 z))      -- `j as i32` (sign-extend or truncate)

def DataNumber.parse (arms : DnArms) (len : Nat) (signed : Bool) : P DataNumber := fun i =>
  match arms.lookup (len, signed) with
  | none => none
  | some arm =>
    match takeN len i with
    | none => none
    | some (bs, r) => some (DataNumber.make arm signed bs, r)

/-- outcome of an exporter: bytes, an `Err` result, or a panic (byteorder's range assertion) -/
inductive Out (α : Type) where
  | ok (a : α) | err | panic
  deriving Repr, DecidableEq

def DataNumber.toBE : DataNumber → Out Bytes
  | .u8 n => .ok (Netflow.toBE 1 n)
  | .u16 n => .ok (Netflow.toBE 2 n)
  | .u24 n => if n < 2 ^ 24 then .ok (Netflow.toBE 3 n) else .panic
  | .i24 z => if -(2 ^ 23 : Int) ≤ z ∧ z < 2 ^ 23 then .ok (Netflow.toBE 3 (wrapUnsigned 24 z)) else .panic
  | .u32 n => .ok (Netflow.toBE 4 n)
  | .u64 n => .ok (Netflow.toBE 8 n)
  | .u128 n => .ok (Netflow.toBE 16 n)
  | .i32 z => .ok (Netflow.toBE 4 (wrapUnsigned 32 z))

/-- `From<DataNumber> for usize` (64-bit target) -/
def DataNumber.toUsize : DataNumber → Nat
  | .u8 n | .u16 n | .u24 n | .u32 n | .u64 n => n
  | .u128 n => n % 2 ^ 64
  | .i24 z | .i32 z => wrapUnsigned 64 z

/-! ### `FieldValue::from_field_type`, `FieldValue::to_be_bytes` -/

structure ValueCfg where
  dnArms : DnArms
  protoParse : Nat → Option Nat     -- `ProtocolTypes::parse` (derive(Nom) on a `repr(u8)` enum): by discriminant
  protoToU8 : Nat → Nat             -- `From<ProtocolTypes> for u8`, by discriminant
  unknownFields : Bool              -- cargo feature `parse_unknown_fields`

def durOf (unit : Nat) (d : DataNumber) : FieldValue :=
  let n := d.toUsize
  -- Duration::from_secs / from_millis / from_micros / from_nanos
  .dur (n / unit) ((n % unit) * (1000000000 / unit))

def parseValue (c : ValueCfg) (ty : FType) (len : Nat) : P FieldValue := fun i =>
  match ty with
  | .unsigned =>
    match DataNumber.parse c.dnArms len false i with
    | none => none | some (d, r) => some (.num d, r)
  | .signed =>
    match DataNumber.parse c.dnArms len true i with
    | none => none | some (d, r) => some (.num d, r)
  | .str =>
    match takeN len i with
    | none => none | some (b, r) => some (.str (utf8Lossy b), r)
  | .ip4 =>
    match beU 4 i with
    | none => none | some (n, r) => some (.ip4 n, r)
  | .ip6 =>
    match beU 16 i with
    | none => none | some (n, r) => some (.ip6 n, r)
  | .mac =>
    match takeN 6 i with
    | none => none | some (b, r) => some (.mac b, r)
  | .durS =>
    match DataNumber.parse c.dnArms len false i with
    | none => none | some (d, r) => some (durOf 1 d, r)
  | .durMs =>
    match DataNumber.parse c.dnArms len false i with
    | none => none | some (d, r) => some (durOf 1000 d, r)
  | .durUs =>
    match DataNumber.parse c.dnArms len false i with
    | none => none | some (d, r) => some (durOf 1000000 d, r)
  | .durNs =>
    match DataNumber.parse c.dnArms len false i with
    | none => none | some (d, r) => some (durOf 1000000000 d, r)
  | .proto =>
    match beU 1 i with
    | none => none
    | some (n, r) =>
      match c.protoParse n with
      | none => none | some p => some (.proto p, r)
  | .f64 =>
    match beU 8 i with
    | none => none | some (n, r) => some (.f64 n, r)
  | .vec =>
    match takeN len i with
    | none => none | some (b, r) => some (.vec b, r)
  | .unknown =>
    if c.unknownFields then
      match takeN len i with
      | none => none | some (b, r) => some (.vec b, r)
    else none

def FieldValue.toBE (c : ValueCfg) : FieldValue → Out Bytes
  | .str s => .ok s
  | .num d => d.toBE
  | .f64 b => .ok (Netflow.toBE 8 b)
  | .dur secs _ => if secs < 2 ^ 32 then .ok (Netflow.toBE 4 secs) else .err
  | .ip4 n => .ok (Netflow.toBE 4 n)
  | .ip6 n => .ok (Netflow.toBE 16 n)
  | .mac raw => .ok (macText raw)
  | .proto p => .ok [UInt8.ofNat (c.protoToU8 p)]
  | .vec b => .ok b
  | .unknown b => .ok b

end Netflow
