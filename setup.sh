#!/bin/bash
# offline setup: build the Lean model/driver and the harness from files on disk
set -e
cd /verif
python3 tools/translate.py > /dev/null
python3 tools/check_snapshot.py
(cd lean && lake build nfdriver NetflowModel $(ls NetflowModel/Props/*.lean | sed -e 's#/#.#g' -e 's#\.lean$##') 2>&1 | tail -3)
(cd harness && CARGO_NET_OFFLINE=true cargo build --release --offline 2>&1 | tail -2)
echo setup-ok
