#[doc(hidden)]
pub mod __private229 {
    #[doc(hidden)]
    pub use crate::private::*;
}
use serde_core::__private229 as serde_core_private;
