#[doc(hidden)]
pub mod __private229 {
    #[doc(hidden)]
    pub use crate::private::*;
}
