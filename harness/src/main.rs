// nfh — harness that runs the REAL netflow_parser crate (path dependency on /repo's working
// tree) on JSON-lines operations and prints one canonical JSON answer per operation.
// The answer format is exactly what the Lean driver's derived FromJson instances read.
//
//   {"op":"new","p":0,"allowed":[5,7,9,10]}
//   {"op":"allowed","p":0,"set":[9,77]}
//   {"op":"parse","p":0,"hex":"0005...","want":["export","common","json","alloc"]}
//   {"op":"flat","p":0,"hex":"..."}             parse_bytes_as_netflow_common_flowsets
//   {"op":"fixed_roundtrip","v":5,"hdr":[...],"recs":[[...]]}   struct -> to_be_bytes -> parse
//   {"op":"scenario",...}                       marker, echoed
//
// usage: nfh <ops-file> <out-file> [start-line]
use netflow_parser::netflow_common::{NetflowCommon, NetflowCommonFlowSet};
use netflow_parser::static_versions::{v5, v7};
use netflow_parser::variable_versions::data_number::{DataNumber, FieldValue};
use netflow_parser::variable_versions::{ipfix, v9};
use netflow_parser::{NetflowPacket, NetflowParseError, NetflowParser};
use serde_json::Value;
use std::alloc::{GlobalAlloc, Layout, System};
use std::collections::HashMap;
use std::fmt::Write as _;
use std::io::{BufRead, BufReader, Write};
use std::net::IpAddr;
use std::panic::{catch_unwind, AssertUnwindSafe};
use std::sync::atomic::{AtomicBool, AtomicU64, Ordering};

// ---------------------------------------------------------------- counting allocator (C15)
struct Counting;
static COUNT_ON: AtomicBool = AtomicBool::new(false);
static BYTES: AtomicU64 = AtomicU64::new(0);
static CALLS: AtomicU64 = AtomicU64::new(0);
static LIVE: AtomicU64 = AtomicU64::new(0);
static PEAK: AtomicU64 = AtomicU64::new(0);
/// set when converting a RETURNED value (common view / JSON) panicked: the call is then reported with outcome "panic_convert"
static CONVERT_PANIC: AtomicBool = AtomicBool::new(false);

unsafe impl GlobalAlloc for Counting {
    unsafe fn alloc(&self, l: Layout) -> *mut u8 {
        if COUNT_ON.load(Ordering::Relaxed) {
            BYTES.fetch_add(l.size() as u64, Ordering::Relaxed);
            CALLS.fetch_add(1, Ordering::Relaxed);
            let live = LIVE.fetch_add(l.size() as u64, Ordering::Relaxed) + l.size() as u64;
            PEAK.fetch_max(live, Ordering::Relaxed);
        }
        System.alloc(l)
    }
    unsafe fn dealloc(&self, p: *mut u8, l: Layout) {
        if COUNT_ON.load(Ordering::Relaxed) {
            let _ = LIVE.fetch_update(Ordering::Relaxed, Ordering::Relaxed, |v| Some(v.saturating_sub(l.size() as u64)));
        }
        System.dealloc(p, l)
    }
    unsafe fn realloc(&self, p: *mut u8, l: Layout, new: usize) -> *mut u8 {
        if COUNT_ON.load(Ordering::Relaxed) {
            // count a realloc as a fresh allocation of the new size (worst case: it moves)
            BYTES.fetch_add(new as u64, Ordering::Relaxed);
            CALLS.fetch_add(1, Ordering::Relaxed);
            if new > l.size() {
                let d = (new - l.size()) as u64;
                let live = LIVE.fetch_add(d, Ordering::Relaxed) + d;
                PEAK.fetch_max(live, Ordering::Relaxed);
            } else {
                let d = (l.size() - new) as u64;
                let _ = LIVE.fetch_update(Ordering::Relaxed, Ordering::Relaxed, |v| Some(v.saturating_sub(d)));
            }
        }
        System.realloc(p, l, new)
    }
}
#[global_allocator]
static A: Counting = Counting;

// ---------------------------------------------------------------- helpers
fn hex(b: &[u8]) -> String {
    let mut s = String::with_capacity(b.len() * 2 + 2);
    s.push('"');
    for x in b {
        let _ = write!(s, "{:02x}", x);
    }
    s.push('"');
    s
}

fn unhex(s: &str) -> Vec<u8> {
    let b = s.as_bytes();
    let mut out = Vec::with_capacity(b.len() / 2);
    let v = |c: u8| -> u8 {
        match c {
            b'0'..=b'9' => c - b'0',
            b'a'..=b'f' => c - b'a' + 10,
            b'A'..=b'F' => c - b'A' + 10,
            _ => 0,
        }
    };
    let mut i = 0;
    while i + 1 < b.len() {
        out.push(v(b[i]) * 16 + v(b[i + 1]));
        i += 2;
    }
    out
}

fn list<T>(xs: impl IntoIterator<Item = T>, f: impl Fn(T) -> String) -> String {
    let mut s = String::from("[");
    let mut first = true;
    for x in xs {
        if !first {
            s.push(',');
        }
        first = false;
        s.push_str(&f(x));
    }
    s.push(']');
    s
}

// ---------------------------------------------------------------- canonical dump
fn dn(d: &DataNumber) -> String {
    match d {
        DataNumber::U8(n) => format!("{{\"u8\":{{\"n\":{}}}}}", n),
        DataNumber::U16(n) => format!("{{\"u16\":{{\"n\":{}}}}}", n),
        DataNumber::U24(n) => format!("{{\"u24\":{{\"n\":{}}}}}", n),
        DataNumber::I24(n) => format!("{{\"i24\":{{\"z\":{}}}}}", n),
        DataNumber::U32(n) => format!("{{\"u32\":{{\"n\":{}}}}}", n),
        DataNumber::U64(n) => format!("{{\"u64\":{{\"n\":{}}}}}", n),
        DataNumber::U128(n) => format!("{{\"u128\":{{\"n\":{}}}}}", n),
        DataNumber::I32(n) => format!("{{\"i32\":{{\"z\":{}}}}}", n),
    }
}

/// MAC text "AA:BB:CC:DD:EE:FF" back to raw bytes; anything else is flagged (fails to decode
/// on the Lean side, i.e. is reported as a difference).
fn mac_raw(s: &str) -> String {
    let parts: Vec<&str> = s.split(':').collect();
    let mut raw = vec![];
    let ok = parts.len() == 6
        && parts.iter().all(|p| {
            p.len() == 2 && p.bytes().all(|c| c.is_ascii_digit() || (b'A'..=b'F').contains(&c)) && {
                raw.push(u8::from_str_radix(p, 16).unwrap_or(0));
                true
            }
        });
    if ok {
        hex(&raw)
    } else {
        format!("\"!{}\"", s.replace('"', "'"))
    }
}

fn fv(v: &FieldValue) -> String {
    match v {
        FieldValue::String(s) => format!("{{\"str\":{{\"utf8\":{}}}}}", hex(s.as_bytes())),
        FieldValue::DataNumber(d) => format!("{{\"num\":{{\"d\":{}}}}}", dn(d)),
        FieldValue::Float64(f) => format!("{{\"f64\":{{\"bits\":{}}}}}", f.to_bits()),
        FieldValue::Duration(d) => format!("{{\"dur\":{{\"secs\":{},\"nanos\":{}}}}}", d.as_secs(), d.subsec_nanos()),
        FieldValue::Ip4Addr(ip) => format!("{{\"ip4\":{{\"n\":{}}}}}", u32::from(*ip)),
        FieldValue::Ip6Addr(ip) => format!("{{\"ip6\":{{\"n\":{}}}}}", u128::from(*ip)),
        FieldValue::MacAddr(s) => format!("{{\"mac\":{{\"raw\":{}}}}}", mac_raw(s)),
        FieldValue::Vec(b) => format!("{{\"vec\":{{\"b\":{}}}}}", hex(b)),
        FieldValue::ProtocolType(p) => format!("{{\"proto\":{{\"disc\":{}}}}}", *p as u8),
        FieldValue::Unknown(b) => format!("{{\"unknown\":{{\"b\":{}}}}}", hex(b)),
    }
}

fn v5_hdr(h: &v5::Header) -> String {
    format!(
        "[{},{},{},{},{},{},{},{},{}]",
        h.version, h.count, h.sys_up_time, h.unix_secs, h.unix_nsecs, h.flow_sequence, h.engine_type, h.engine_id, h.sampling_interval
    )
}
fn v5_rec(s: &v5::FlowSet) -> String {
    format!(
        "[{},{},{},{},{},{},{},{},{},{},{},{},{},{},{},{},{},{},{},{},{}]",
        u32::from(s.src_addr), u32::from(s.dst_addr), u32::from(s.next_hop), s.input, s.output, s.d_pkts, s.d_octets, s.first,
        s.last, s.src_port, s.dst_port, s.pad1, s.tcp_flags, s.protocol_number, s.protocol_type as u8, s.tos, s.src_as, s.dst_as,
        s.src_mask, s.dst_mask, s.pad2
    )
}
fn v7_hdr(h: &v7::Header) -> String {
    format!("[{},{},{},{},{},{},{}]", h.version, h.count, h.sys_up_time, h.unix_secs, h.unix_nsecs, h.flow_sequence, h.reserved)
}
fn v7_rec(s: &v7::FlowSet) -> String {
    format!(
        "[{},{},{},{},{},{},{},{},{},{},{},{},{},{},{},{},{},{},{},{},{},{}]",
        u32::from(s.src_addr), u32::from(s.dst_addr), u32::from(s.next_hop), s.input, s.output, s.d_pkts, s.d_octets, s.first,
        s.last, s.src_port, s.dst_port, s.flags_fields_valid, s.tcp_flags, s.protocol_number, s.protocol_type as u8, s.tos,
        s.src_as, s.dst_as, s.src_mask, s.dst_mask, s.flags_fields_invalid, u32::from(s.router_src)
    )
}

fn v9_tfield(f: &v9::TemplateField) -> String {
    // self-consistency of the derived enum field (reported as a decode failure if broken)
    let consistent = f.field_type == netflow_parser::variable_versions::v9_lookup::V9Field::from(f.field_type_number);
    if consistent {
        format!("{{\"typ\":{},\"len\":{}}}", f.field_type_number, f.field_length)
    } else {
        format!("{{\"typ\":\"inconsistent field_type\",\"len\":{}}}", f.field_length)
    }
}
fn v9_sfield(f: &v9::OptionsTemplateScopeField) -> String {
    let consistent = f.field_type == netflow_parser::variable_versions::v9_lookup::ScopeFieldType::from(f.field_type_number);
    if consistent {
        format!("{{\"typ\":{},\"len\":{}}}", f.field_type_number, f.field_length)
    } else {
        format!("{{\"typ\":\"inconsistent field_type\",\"len\":{}}}", f.field_length)
    }
}
fn v9_template(t: &v9::Template) -> String {
    format!("{{\"id\":{},\"fieldCount\":{},\"fields\":{}}}", t.template_id, t.field_count, list(&t.fields, v9_tfield))
}
fn v9_opt_template(t: &v9::OptionsTemplate) -> String {
    format!(
        "{{\"id\":{},\"scopeLen\":{},\"optLen\":{},\"scope\":{},\"opts\":{}}}",
        t.template_id, t.options_scope_length, t.options_length, list(&t.scope_fields, v9_sfield), list(&t.option_fields, v9_tfield)
    )
}
fn v9_scope(s: &v9::ScopeDataField) -> String {
    let (d, b) = match s {
        v9::ScopeDataField::System(b) => (1, b),
        v9::ScopeDataField::Interface(b) => (2, b),
        v9::ScopeDataField::LineCard(b) => (3, b),
        v9::ScopeDataField::NetFlowCache(b) => (4, b),
        v9::ScopeDataField::Template(b) => (5, b),
    };
    format!("[{},{}]", d, hex(b))
}
fn v9_body(b: &v9::FlowSetBody) -> String {
    match b {
        v9::FlowSetBody::Template(t) => format!("{{\"templates\":{{\"ts\":{},\"pad\":{}}}}}", list(&t.templates, v9_template), hex(&t.padding)),
        v9::FlowSetBody::OptionsTemplate(t) => {
            format!("{{\"optTemplates\":{{\"ts\":{},\"pad\":{}}}}}", list(&t.templates, v9_opt_template), hex(&t.padding))
        }
        v9::FlowSetBody::Data(d) => format!(
            "{{\"data\":{{\"recs\":{},\"pad\":{}}}}}",
            list(&d.fields, |m| list(m.iter(), |(k, (ft, v))| format!("[{},[{},{}]]", k, *ft as u16, fv(v)))),
            hex(&d.padding)
        ),
        v9::FlowSetBody::OptionsData(d) => format!(
            "{{\"optData\":{{\"scope\":{},\"opts\":{},\"pad\":{}}}}}",
            list(&d.scope_fields, v9_scope),
            list(&d.options_fields, |o| format!("[{},{}]", o.field_type as u16, hex(&o.field_value))),
            hex(&d.padding)
        ),
    }
}

fn ip_tfield(f: &ipfix::TemplateField) -> String {
    use netflow_parser::variable_versions::ipfix_lookup::IPFixField;
    let expect = if f.enterprise_number.is_some() { IPFixField::Enterprise } else { IPFixField::from(f.field_type_number) };
    let ent = match f.enterprise_number {
        Some(e) => e.to_string(),
        None => "null".to_string(),
    };
    if f.field_type == expect {
        format!("{{\"typ\":{},\"len\":{},\"ent\":{}}}", f.field_type_number, f.field_length, ent)
    } else {
        format!("{{\"typ\":\"inconsistent field_type\",\"len\":{},\"ent\":{}}}", f.field_length, ent)
    }
}
fn ip_template(t: &ipfix::Template) -> String {
    format!(
        "{{\"id\":{},\"fieldCount\":{},\"fields\":{},\"pad\":{}}}",
        t.template_id, t.field_count, list(&t.fields, ip_tfield), hex(&t.padding)
    )
}
fn ip_opt_template(t: &ipfix::OptionsTemplate) -> String {
    format!(
        "{{\"id\":{},\"fieldCount\":{},\"scopeCount\":{},\"fields\":{},\"pad\":{}}}",
        t.template_id, t.field_count, t.scope_field_count, list(&t.fields, ip_tfield), hex(&t.padding)
    )
}
fn ip_recs(fields: &Vec<std::collections::BTreeMap<usize, (netflow_parser::variable_versions::ipfix_lookup::IPFixField, FieldValue)>>) -> String {
    list(fields, |m| list(m.iter(), |(k, (ft, v))| format!("[{},[{},{}]]", k, *ft as u16, fv(v))))
}
fn ip_body(b: &ipfix::FlowSetBody) -> String {
    match b {
        ipfix::FlowSetBody::Template(t) => format!("{{\"template\":{{\"t\":{}}}}}", ip_template(t)),
        ipfix::FlowSetBody::OptionsTemplate(t) => format!("{{\"optTemplate\":{{\"t\":{}}}}}", ip_opt_template(t)),
        ipfix::FlowSetBody::Data(d) => format!("{{\"data\":{{\"recs\":{},\"pad\":{}}}}}", ip_recs(&d.fields), hex(&d.padding)),
        ipfix::FlowSetBody::OptionsData(d) => format!("{{\"optData\":{{\"recs\":{},\"pad\":{}}}}}", ip_recs(&d.fields), hex(&d.padding)),
    }
}

fn packet(p: &NetflowPacket) -> String {
    match p {
        NetflowPacket::V5(v) => format!("{{\"v5\":{{\"hdr\":{},\"recs\":{}}}}}", v5_hdr(&v.header), list(&v.flowsets, v5_rec)),
        NetflowPacket::V7(v) => format!("{{\"v7\":{{\"hdr\":{},\"recs\":{}}}}}", v7_hdr(&v.header), list(&v.flowsets, v7_rec)),
        NetflowPacket::V9(v) => {
            let h = &v.header;
            format!(
                "{{\"v9\":{{\"hdr\":[{},{},{},{},{},{}],\"sets\":{}}}}}",
                h.version, h.count, h.sys_up_time, h.unix_secs, h.sequence_number, h.source_id,
                list(&v.flowsets, |s| format!("{{\"id\":{},\"len\":{},\"body\":{}}}", s.header.flowset_id, s.header.length, v9_body(&s.body)))
            )
        }
        NetflowPacket::IPFix(v) => {
            let h = &v.header;
            format!(
                "{{\"ipfix\":{{\"hdr\":[{},{},{},{},{}],\"sets\":{}}}}}",
                h.version, h.length, h.export_time, h.sequence_number, h.observation_domain_id,
                list(&v.flowsets, |s| format!("{{\"id\":{},\"len\":{},\"body\":{}}}", s.header.header_id, s.header.length, ip_body(&s.body)))
            )
        }
        NetflowPacket::Error(e) => {
            let kind = match &e.error {
                NetflowParseError::Incomplete(_) => "\"incomplete\"".to_string(),
                NetflowParseError::Partial(pp) => {
                    format!("{{\"partialParse\":{{\"version\":{},\"remaining\":{}}}}}", pp.version, hex(&pp.remaining))
                }
                NetflowParseError::UnknownVersion(b) => format!("{{\"unknownVersion\":{{\"remaining\":{}}}}}", hex(b)),
                NetflowParseError::UnallowedVersion(v) => format!("{{\"unallowedVersion\":{{\"v\":{}}}}}", v),
            };
            format!("{{\"error\":{{\"kind\":{},\"remaining\":{}}}}}", kind, hex(&e.remaining))
        }
    }
}

fn state(p: &NetflowParser) -> String {
    let mut a: Vec<_> = p.v9_parser.templates.iter().collect();
    a.sort_by_key(|(k, _)| **k);
    let mut b: Vec<_> = p.v9_parser.options_templates.iter().collect();
    b.sort_by_key(|(k, _)| **k);
    format!(
        "{{\"v9T\":{},\"v9O\":{},\"ipT\":{},\"ipO\":{}}}",
        list(a, |(k, t)| format!("[{},{}]", k, v9_template(t))),
        list(b, |(k, t)| format!("[{},{}]", k, v9_opt_template(t))),
        list(p.ipfix_parser.templates.iter(), |(k, t)| format!("[{},{}]", k, ip_template(t))),
        list(p.ipfix_parser.options_templates.iter(), |(k, t)| format!("[{},{}]", k, ip_opt_template(t))),
    )
}

fn opt<T>(o: &Option<T>, f: impl Fn(&T) -> String) -> String {
    match o {
        Some(x) => f(x),
        None => "null".to_string(),
    }
}
fn ipaddr(a: &IpAddr) -> String {
    match a {
        IpAddr::V4(x) => format!("[false,{}]", u32::from(*x)),
        IpAddr::V6(x) => format!("[true,{}]", u128::from(*x)),
    }
}
fn flow(f: &NetflowCommonFlowSet) -> String {
    format!(
        "{{\"srcAddr\":{},\"dstAddr\":{},\"srcPort\":{},\"dstPort\":{},\"protoNum\":{},\"protoType\":{},\"first\":{},\"last\":{},\"srcMac\":{},\"dstMac\":{}}}",
        opt(&f.src_addr, ipaddr), opt(&f.dst_addr, ipaddr), opt(&f.src_port, |x| x.to_string()), opt(&f.dst_port, |x| x.to_string()),
        opt(&f.protocol_number, |x| x.to_string()), opt(&f.protocol_type, |x| (*x as u8).to_string()),
        opt(&f.first_seen, |x| x.to_string()), opt(&f.last_seen, |x| x.to_string()),
        opt(&f.src_mac, |x| hex(x.as_bytes())), opt(&f.dst_mac, |x| hex(x.as_bytes()))
    )
}
fn common(c: &NetflowCommon) -> String {
    format!("{{\"version\":{},\"timestamp\":{},\"flows\":{}}}", c.version, c.timestamp, list(&c.flowsets, flow))
}

fn out_bytes(r: std::thread::Result<Result<Vec<u8>, ()>>) -> String {
    match r {
        Ok(Ok(b)) => format!("{{\"ok\":{{\"a\":{}}}}}", hex(&b)),
        Ok(Err(())) => "\"err\"".to_string(),
        Err(_) => "\"panic\"".to_string(),
    }
}

fn export(p: &NetflowPacket) -> String {
    match p {
        NetflowPacket::V5(v) => out_bytes(catch_unwind(AssertUnwindSafe(|| Ok(v.to_be_bytes())))),
        NetflowPacket::V7(v) => out_bytes(catch_unwind(AssertUnwindSafe(|| Ok(v.to_be_bytes())))),
        NetflowPacket::V9(v) => out_bytes(catch_unwind(AssertUnwindSafe(|| v.to_be_bytes().map_err(|_| ())))),
        NetflowPacket::IPFix(v) => out_bytes(catch_unwind(AssertUnwindSafe(|| v.to_be_bytes().map_err(|_| ())))),
        NetflowPacket::Error(_) => "null".to_string(),
    }
}

fn json_string(s: &str) -> String {
    serde_json::to_string(s).unwrap_or_else(|_| "\"\"".into())
}

// ---------------------------------------------------------------- operations
fn run_on_small_stack<T>(f: impl FnOnce() -> T) -> T {
    // the property's "default 2 MiB stack": the whole operation loop (`main_loop`) runs on ONE worker
    // thread of that size, so every call into the crate does too, and state the crate keeps per thread
    // (thread_local!, statics) persists from call to call exactly as it does for a caller's own loop
    f()
}

fn do_parse(parser: &mut NetflowParser, op: &Value) -> String {
    let buf = unhex(op["hex"].as_str().unwrap_or(""));
    let want: Vec<&str> = op["want"].as_array().map(|a| a.iter().filter_map(|x| x.as_str()).collect()).unwrap_or_default();
    let w = |k: &str| want.contains(&k);
    let res = run_on_small_stack(|| {
        BYTES.store(0, Ordering::Relaxed);
        CALLS.store(0, Ordering::Relaxed);
        LIVE.store(0, Ordering::Relaxed);
        PEAK.store(0, Ordering::Relaxed);
        COUNT_ON.store(true, Ordering::Relaxed);
        let r = catch_unwind(AssertUnwindSafe(|| parser.parse_bytes(&buf)));
        COUNT_ON.store(false, Ordering::Relaxed);
        r
    });
    let alloc = BYTES.load(Ordering::Relaxed);
    let calls = CALLS.load(Ordering::Relaxed);
    let peak = PEAK.load(Ordering::Relaxed);
    match res {
        Err(_) => format!("{{\"outcome\":\"panic\",\"pkts\":[],\"state\":{},\"exports\":[],\"common\":[],\"json\":[],\"alloc\":{},\"calls\":{},\"peak\":{}}}", state(parser), alloc, calls, peak),
        Ok(pkts) => {
            let exports = if w("export") { run_on_small_stack(|| list(&pkts, export)) } else { "[]".into() };
            let commons = if w("common") {
                run_on_small_stack(|| {
                    list(&pkts, |p| match catch_unwind(AssertUnwindSafe(|| p.as_netflow_common())) {
                        Ok(Ok(c)) => common(&c),
                        Ok(Err(_)) => "null".to_string(),
                        Err(_) => {
                            CONVERT_PANIC.store(true, Ordering::Relaxed);
                            "null".to_string()
                        }
                    })
                })
            } else {
                "[]".into()
            };
            let jsons = if w("json") {
                run_on_small_stack(|| {
                    list(&pkts, |p| {
                        let a = catch_unwind(AssertUnwindSafe(|| serde_json::to_string(p)));
                        let b = catch_unwind(AssertUnwindSafe(|| serde_json::to_string(p)));
                        match (a, b) {
                            (Ok(Ok(x)), Ok(Ok(y))) => {
                                if x == y { format!("{{\"ok\":{}}}", json_string(&x)) } else { "\"nondeterministic\"".to_string() }
                            }
                            (Ok(Err(_)), _) | (_, Ok(Err(_))) => "\"err\"".to_string(),
                            _ => {
                                CONVERT_PANIC.store(true, Ordering::Relaxed);
                                "\"panic\"".to_string()
                            }
                        }
                    })
                })
            } else {
                "[]".into()
            };
            // a panic while converting a value parse_bytes RETURNED (C01: "converted to the common form and serialized to JSON
            // without a panic") is an outcome of the call, not an undecodable answer
            let outcome = if CONVERT_PANIC.swap(false, Ordering::Relaxed) { "panic_convert" } else { "done" };
            format!(
                "{{\"outcome\":\"{}\",\"pkts\":{},\"state\":{},\"exports\":{},\"common\":{},\"json\":{},\"alloc\":{},\"calls\":{},\"peak\":{}}}",
                outcome, list(&pkts, packet), state(parser), exports, commons, jsons, alloc, calls, peak
            )
        }
    }
}

fn nat(v: &Value) -> u64 {
    v.as_u64().unwrap_or(0)
}

fn do_fixed_roundtrip(op: &Value) -> String {
    // build the public struct from values (declared order), export it, parse the bytes back
    let h: Vec<u64> = op["hdr"].as_array().map(|a| a.iter().map(nat).collect()).unwrap_or_default();
    let recs: Vec<Vec<u64>> = op["recs"].as_array().map(|a| a.iter().map(|r| r.as_array().map(|x| x.iter().map(nat).collect()).unwrap_or_default()).collect()).unwrap_or_default();
    use netflow_parser::protocol::ProtocolTypes;
    use std::net::Ipv4Addr;
    let ver = nat(&op["v"]);
    // "raw_pt": the (derived) protocol_type field is set from slot 14 instead of from protocol_number — a structure a caller CAN build
    let raw_pt = op["raw_pt"].as_bool().unwrap_or(false);
    let bytes: Vec<u8> = if ver == 5 {
        if h.len() != 9 || recs.iter().any(|r| r.len() != 21) { return "{\"bad\":\"arity\"}".into(); }
        let s = v5::V5 {
            header: v5::Header { version: h[0] as u16, count: h[1] as u16, sys_up_time: h[2] as u32, unix_secs: h[3] as u32, unix_nsecs: h[4] as u32,
                flow_sequence: h[5] as u32, engine_type: h[6] as u8, engine_id: h[7] as u8, sampling_interval: h[8] as u16 },
            flowsets: recs.iter().map(|r| v5::FlowSet {
                src_addr: Ipv4Addr::from(r[0] as u32), dst_addr: Ipv4Addr::from(r[1] as u32), next_hop: Ipv4Addr::from(r[2] as u32),
                input: r[3] as u16, output: r[4] as u16, d_pkts: r[5] as u32, d_octets: r[6] as u32, first: r[7] as u32, last: r[8] as u32,
                src_port: r[9] as u16, dst_port: r[10] as u16, pad1: r[11] as u8, tcp_flags: r[12] as u8, protocol_number: r[13] as u8,
                protocol_type: ProtocolTypes::from(if raw_pt { r[14] as u8 } else { r[13] as u8 }), tos: r[15] as u8, src_as: r[16] as u16, dst_as: r[17] as u16,
                src_mask: r[18] as u8, dst_mask: r[19] as u8, pad2: r[20] as u16 }).collect(),
        };
        s.to_be_bytes()
    } else {
        if h.len() != 7 || recs.iter().any(|r| r.len() != 22) { return "{\"bad\":\"arity\"}".into(); }
        let s = v7::V7 {
            header: v7::Header { version: h[0] as u16, count: h[1] as u16, sys_up_time: h[2] as u32, unix_secs: h[3] as u32, unix_nsecs: h[4] as u32,
                flow_sequence: h[5] as u32, reserved: h[6] as u32 },
            flowsets: recs.iter().map(|r| v7::FlowSet {
                src_addr: Ipv4Addr::from(r[0] as u32), dst_addr: Ipv4Addr::from(r[1] as u32), next_hop: Ipv4Addr::from(r[2] as u32),
                input: r[3] as u16, output: r[4] as u16, d_pkts: r[5] as u32, d_octets: r[6] as u32, first: r[7] as u32, last: r[8] as u32,
                src_port: r[9] as u16, dst_port: r[10] as u16, flags_fields_valid: r[11] as u8, tcp_flags: r[12] as u8, protocol_number: r[13] as u8,
                protocol_type: ProtocolTypes::from(if raw_pt { r[14] as u8 } else { r[13] as u8 }), tos: r[15] as u8, src_as: r[16] as u16, dst_as: r[17] as u16,
                src_mask: r[18] as u8, dst_mask: r[19] as u8, flags_fields_invalid: r[20] as u16, router_src: Ipv4Addr::from(r[21] as u32) }).collect(),
        };
        s.to_be_bytes()
    };
    let mut p = NetflowParser::default();
    let pk = p.parse_bytes(&bytes);
    format!("{{\"bytes\":{},\"pkts\":{}}}", hex(&bytes), list(&pk, packet))
}

fn main() {
    let args: Vec<String> = std::env::args().collect();
    let r = std::thread::Builder::new().stack_size(2 << 20).spawn(move || main_loop(args)).expect("spawn").join();
    if r.is_err() {
        std::process::exit(3);
    }
}

fn main_loop(args: Vec<String>) {
    if args.len() < 3 {
        eprintln!("usage: nfh <ops-file> <out-file> [start-line]");
        std::process::exit(2);
    }
    let start: usize = args.get(3).and_then(|s| s.parse().ok()).unwrap_or(0);
    let f = std::fs::File::open(&args[1]).expect("ops file");
    let mut out = std::fs::OpenOptions::new().create(true).append(true).open(&args[2]).expect("out file");
    // keep the default panic message off stderr (one line per caught panic is noise)
    std::panic::set_hook(Box::new(|_| {}));
    let mut parsers: HashMap<u64, NetflowParser> = HashMap::new();
    for (ln, line) in BufReader::new(f).lines().enumerate() {
        if ln < start {
            continue;
        }
        let line = line.expect("read");
        if line.trim().is_empty() {
            continue;
        }
        let op: Value = match serde_json::from_str(&line) {
            Ok(v) => v,
            Err(_) => {
                writeln!(out, "{{\"i\":{},\"bad\":\"json\"}}", ln).ok();
                continue;
            }
        };
        let ans = match op["op"].as_str().unwrap_or("") {
            "new" => {
                let mut p = NetflowParser::default();
                if let Some(a) = op["allowed"].as_array() {
                    p.allowed_versions = a.iter().map(|x| nat(x) as u16).collect();
                } else if op["allowed"].as_str() == Some("all") {
                    p.allowed_versions = (0..=65535u16).collect();
                }
                parsers.insert(nat(&op["p"]), p);
                "{\"ok\":true}".to_string()
            }
            "allowed" => {
                if let Some(p) = parsers.get_mut(&nat(&op["p"])) {
                    p.allowed_versions = op["set"].as_array().map(|a| a.iter().map(|x| nat(x) as u16).collect()).unwrap_or_default();
                }
                "{\"ok\":true}".to_string()
            }
            "adopt" => {
                // the caller replaces the public cache maps of one protocol on parser p by a copy of those of parser `from`
                let src = parsers.get(&nat(&op["from"])).map(|q| {
                    (q.v9_parser.templates.clone(), q.v9_parser.options_templates.clone(), q.ipfix_parser.templates.clone(), q.ipfix_parser.options_templates.clone())
                });
                if let (Some(p), Some(src)) = (parsers.get_mut(&nat(&op["p"])), src) {
                    if nat(&op["proto"]) == 10 {
                        p.ipfix_parser.templates = src.2;
                        p.ipfix_parser.options_templates = src.3;
                    } else {
                        p.v9_parser.templates = src.0;
                        p.v9_parser.options_templates = src.1;
                    }
                }
                "{\"ok\":true}".to_string()
            }
            "forget" => {
                // the caller removes a template id from the public cache maps of one protocol (template expiry)
                if let Some(p) = parsers.get_mut(&nat(&op["p"])) {
                    let id = nat(&op["id"]) as u16;
                    if nat(&op["proto"]) == 10 {
                        p.ipfix_parser.templates.remove(&id);
                        p.ipfix_parser.options_templates.remove(&id);
                    } else {
                        p.v9_parser.templates.remove(&id);
                        p.v9_parser.options_templates.remove(&id);
                    }
                }
                "{\"ok\":true}".to_string()
            }
            "parse" => {
                // mark the op as in flight so that the parent can attribute a crash
                writeln!(out, "{{\"i\":{},\"inflight\":true}}", ln).ok();
                out.flush().ok();
                let p = parsers.entry(nat(&op["p"])).or_insert_with(NetflowParser::default);
                do_parse(p, &op)
            }
            "flat" => {
                let p = parsers.entry(nat(&op["p"])).or_insert_with(NetflowParser::default);
                let buf = unhex(op["hex"].as_str().unwrap_or(""));
                writeln!(out, "{{\"i\":{},\"inflight\":true}}", ln).ok();
                out.flush().ok();
                let r = run_on_small_stack(|| catch_unwind(AssertUnwindSafe(|| p.parse_bytes_as_netflow_common_flowsets(&buf))));
                match r {
                    Ok(fl) => format!("{{\"outcome\":\"done\",\"flat\":{},\"state\":{}}}", list(&fl, flow), state(p)),
                    Err(_) => format!("{{\"outcome\":\"panic\",\"flat\":[],\"state\":{}}}", state(p)),
                }
            }
            "fixed_roundtrip" => do_fixed_roundtrip(&op),
            "scenario" | "config" => "{\"ok\":true}".to_string(),
            _ => "{\"bad\":\"op\"}".to_string(),
        };
        writeln!(out, "{{\"i\":{},\"ans\":{}}}", ln, ans).ok();
        out.flush().ok();
    }
}
