#!/usr/bin/env python3
"""check.py <Cnn> [--tier quick|thorough] [--replay FILE]

Decides one property of /verif/properties.jsonl for /repo's current working tree (DESIGN §1.4):
  1. translate.py regenerates lean/NetflowModel/Generated.lean from the Rust source;
  2. `lake build` re-checks the property's theorems (Props/Cnn.lean) against it, `#print axioms` audit;
  3. the harness nfh is rebuilt against /repo and run on generated operation sequences;
  4. the Lean driver compares the real crate's answers with the executable model (correspondence) and
     evaluates the property's decidable predicate — the one the theorems are about — on what the real
     crate returned (oracle);
  5. verdict, evidence/Cnn.json, exit code.
No property is stated in Python: this file only orchestrates and counts.
"""
import argparse, hashlib, json, os, random, re, sys, time

VERIF = os.path.dirname(os.path.abspath(__file__))
sys.path.insert(0, os.path.join(VERIF, "tools"))
import runner, gen, props  # noqa: E402

ALLOWED_AXIOMS = {"propext", "Classical.choice", "Quot.sound"}
TRUSTED_BASE = [
    "Lean 4.33 kernel; axioms of every property theorem ⊆ {propext, Classical.choice, Quot.sound} (audited by #print axioms on this run); no sorry/admit/native_decide/bv_decide/own axioms (textual scan on this run)",
    "tools/translate.py (+ translate_ctl.py, translate_export.py, translate_nom.py, translate_serde.py, translate_text.py): that the tables, layouts, emission orders, value-codec arms, the control skeleton (constants, comparison operators, dispatch-arm orders and cache updates, flags of lib.rs / v9.rs / ipfix.rs) and the statement lists of V9::to_be_bytes / IPFix::to_be_bytes it extracts are what rustc compiles (every generated item is also exercised through the correspondence run); Lemmas/G1Arms, G2Ctl, G3Export, G4Nom and Props/SerdeGen prove that the model the theorems are about IS the interpretation of these regenerated items; translate_text.py records a token fingerprint (SHA-256 of the comment- and layout-free token sequence) of every source file, of the file set and of the relevant Cargo.toml sections: the hand-written model parts and the shape recognisers are tied to exactly that text — any other text is reported as a fallback of the `text:` items and is then covered only by a widened correspondence search, not by the regenerated items",
    "the rest of the hand-written model (nom combinators, V5/V7 count loop, V9 record / options-data loops, IPFIX field decoding, chaining, error mapping, common-view loops, JSON shapes): MODELLED, tied to the code only by the correspondence runs of this check (differential testing, not a proof)",
    "nom 7.1.3, nom-derive 0.10.1, serde/serde_json, byteorder, mac_address, std are modelled from their semantics",
    "harness nfh canonical dump and the driver's JSON reader; Python orchestration (generation, process control, counting)",
    "not modelled: stack frame sizes, allocator internals, rustc",
]


def scan_forbidden():
    bad = []
    pat = re.compile(r"\bsorry\b|\badmit\b|^axiom |native_decide|bv_decide|implemented_by|\bunsafe |maxHeartbeats 0")
    for root, _, files in os.walk(os.path.join(runner.LEAN, "NetflowModel")):
        for fn in files:
            if not fn.endswith(".lean"):
                continue
            txt = open(os.path.join(root, fn)).read()
            txt = re.sub(r"/-.*?-/", "", txt, flags=re.S)
            for ln, line in enumerate(txt.splitlines(), 1):
                line = line.split("--")[0]
                if pat.search(line):
                    bad.append("%s:%d: %s" % (fn, ln, line.strip()[:80]))
    return bad


EXTRA_MODULES = {"C01": ["C01c", "H1", "Ctl", "ExportGen"], "C02": ["H1", "Ctl"], "C04": ["C04c", "Ctl", "NomGen"], "C05": ["Ctl", "NomGen"], "C06": ["C06Refine", "C06c", "C07d", "H1", "Ctl", "NomGen"], "C07": ["C07b", "C07c", "C07d", "H1", "Ctl"],
                 "C08": ["C08b"], "C09": ["Ctl", "ExportGen"], "C10": ["Ctl", "ExportGen"], "C11": ["Ctl"], "C12": ["H1", "Ctl"], "C13": ["C13b", "C13c"], "C14": ["C14b", "H1", "Ctl"], "C15": ["C15b", "C15c", "C15d", "Ctl"],
                 "C16": ["C16b", "C16c", "SerdeGen", "H1"], "C17": ["C17b", "Ctl"]}
SHARED_MODULES = {"H1", "Ctl", "ExportGen", "NomGen"}                     # modules holding theorems of several properties: only the `Cnn_…` ones count for Cnn     # further theorem files that belong to a property


def prop_modules(prop_id):
    return [m for m in [prop_id] + EXTRA_MODULES.get(prop_id, [])
            if os.path.exists(os.path.join(runner.LEAN, "NetflowModel", "Props", m + ".lean"))]


def theorem_names(prop_id):
    names = []
    for m in prop_modules(prop_id):
        txt = open(os.path.join(runner.LEAN, "NetflowModel", "Props", m + ".lean")).read()
        txt = re.sub(r"/-.*?-/", "", txt, flags=re.S)
        found = re.findall(r"^theorem\s+([A-Za-z0-9_.']+)", txt, flags=re.M)
        if m in SHARED_MODULES:
            found = [n for n in found if n.startswith(prop_id + "_") or n.startswith("Ctl_") or n.startswith("Export_")]   # Ctl_…: the regenerated control skeleton is the modelled one (counts for every property that imports it)
        names += found
    return names


def audit_axioms(prop_id, names, workdir):
    """#print axioms for every theorem of Props/Cnn.lean"""
    if not names:
        return {}, ""
    src = "".join("import NetflowModel.Props.%s\n" % m for m in prop_modules(prop_id)) + "open Netflow.Props\n" + "".join("#print axioms %s\n" % n for n in names)
    path = os.path.join(workdir, "Audit_%s.lean" % prop_id)
    open(path, "w").write(src)
    rc, out = runner.sh(["lake", "env", "lean", path], cwd=runner.LEAN, timeout=1800)
    res = {}
    for m in re.finditer(r"'(\S+)' depends on axioms: \[([^\]]*)\]", out):
        res[m.group(1).split(".")[-1]] = [a.strip() for a in m.group(2).split(",") if a.strip()]
    for m in re.finditer(r"'(\S+)' does not depend on any axioms", out):
        res[m.group(1).split(".")[-1]] = []
    return res, out


def write_replay(workdir, name, obj):
    d = os.path.join(VERIF, "work", "replays")
    os.makedirs(d, exist_ok=True)
    path = os.path.join(d, name)
    with open(path, "w") as f:
        json.dump(obj, f, indent=1)
    return path


def scenario_of(ops, line):
    """the complete scenario (list of op dicts) that contains op number `line`"""
    s = line
    while s > 0 and ops[s].get("op") != "scenario":
        s -= 1
    e = s + 1
    while e < len(ops) and ops[e].get("op") != "scenario":
        e += 1
    return ops[s:e]


def run_pipeline(binp, scens, workdir, tag, mutate_per=0, rng=None, nouf_bin=None, op_timeout=60.0):
    """encode -> (mutate) -> harness -> merge -> driver.  Returns (ops, verdicts, crashes)"""
    raw = os.path.join(workdir, tag + ".raw.ops")
    enc = os.path.join(workdir, tag + ".enc.ops")
    with open(raw, "w") as f:
        for o in gen.scenarios_to_ops(scens):
            f.write(json.dumps(o) + "\n")
    rc, err = runner.driver_encode(raw, enc)
    if rc != 0:
        raise RuntimeError("driver encode failed: " + err[-500:])
    ops = [json.loads(l) for l in open(enc)]
    if mutate_per and rng is not None:
        # regroup encoded scenarios and append mutated copies
        groups, cur, kind = [], [], None
        for o in ops:
            if o.get("op") == "scenario":
                if cur:
                    groups.append((kind, cur))
                cur, kind = [], o.get("kind", "?")
            else:
                cur.append(o)
        if cur:
            groups.append((kind, cur))
        muts = gen.mutate_scenarios(rng, groups, per=mutate_per)
        base = len(groups)
        for j, (k, s) in enumerate(muts):
            ops.append({"op": "scenario", "kind": k, "sid": base + j})
            ops.extend(s)
    # drop the abstract messages before handing to the harness (keeps lines short) but keep them for the driver
    if nouf_bin:
        # C17: the driver models the build WITHOUT parse_unknown_fields; the default build's answers ride along as impl2
        ops2 = []
        for o in ops:
            ops2.append(o)
            if o.get("op") == "scenario":
                ops2.append({"op": "config", "unknownFields": False})
        ops = ops2
    opsf = os.path.join(workdir, tag + ".ops")
    with open(opsf, "w") as f:
        for o in ops:
            f.write(json.dumps(o) + "\n")
    out = os.path.join(workdir, tag + ".impl")
    merged = os.path.join(workdir, tag + ".merged")
    if nouf_bin:
        answers2, _ = runner.run_harness(binp, opsf, out, op_timeout=op_timeout)
        answers, crashes = runner.run_harness(nouf_bin, opsf, out + ".nouf", op_timeout=op_timeout)
        runner.merge(opsf, answers, merged, answers2)
    else:
        answers, crashes = runner.run_harness(binp, opsf, out, op_timeout=op_timeout)
        runner.merge(opsf, answers, merged)
    rc, err, verdicts = runner.driver_check(merged, os.path.join(workdir, tag + ".verdict"))
    if rc != 0:
        raise RuntimeError("driver failed rc=%s: %s" % (rc, err[-500:]))
    return ops, verdicts, crashes


def main():
    ap = argparse.ArgumentParser()
    ap.add_argument("prop")
    ap.add_argument("--tier", default=os.environ.get("VERIF_TIER", "quick"))
    ap.add_argument("--replay")
    args = ap.parse_args()
    pid = args.prop
    tier = args.tier if args.tier in ("quick", "thorough") else "quick"
    seed = int(os.environ.get("VERIF_SEED", "20260929"))
    t0 = time.time()
    cfg = props.PROPS[pid]
    workdir = os.path.join(VERIF, "work", "%s-%s" % (pid, tier))
    os.makedirs(workdir, exist_ok=True)
    os.makedirs(os.path.join(VERIF, "evidence"), exist_ok=True)
    violations = []        # (replay path, suffix)
    notes = []
    known = [k for k in json.load(open(os.path.join(VERIF, "known_findings.json")))["findings"] if k["property"] == pid]

    # ---- 1. translator
    rc, tsum, tout = runner.translate()
    if rc != 0 or tsum is None:
        p = write_replay(workdir, "%s-translate.json" % pid, {"what": "translate.py could not read the source and no snapshot covers the item", "output": tout[-2000:]})
        violations.append((p, "no-failing-input-found"))
        tsum = {"problems": {"fatal": tout[-300:]}, "fallback": []}
    gen.LITERALS = gen._load_literals_early()      # the literals harvested from the source by THIS run's translate.py
    if tsum.get("fallback"):
        notes.append("translator fell back to snapshot for: %s" % ",".join(tsum["fallback"]))

    # ---- 2. proof obligations
    names = theorem_names(pid)
    targets = ["NetflowModel.Props." + m for m in prop_modules(pid)] if names else []
    rc, bout, bsec = runner.lake_build(targets + ["nfdriver"])
    build_ok = rc == 0
    forbidden = scan_forbidden()
    axioms, aout = ({}, "")
    if build_ok:
        axioms, aout = audit_axioms(pid, names, workdir)
    discharged = [n for n in names if n in axioms and set(axioms[n]) <= ALLOWED_AXIOMS] if build_ok else []
    if build_ok and names and tier == "thorough":
        # independent re-check of the compiled module by the toolchain's external checker
        for m in prop_modules(pid):
            rcl, lout = runner.sh(["lake", "env", "leanchecker", "NetflowModel.Props." + m], cwd=runner.LEAN, timeout=1800)
            notes.append("leanchecker NetflowModel.Props.%s rc=%s" % (m, rcl))
            if rcl != 0:
                discharged = []
                notes.append("leanchecker output: " + lout[-400:])
    obligations_broken = (not build_ok) or bool(forbidden) or len(discharged) != len(names)
    if not build_ok:
        # the driver must still exist for the search below: rebuild it alone (it does not import Props)
        rc2, bout2, _ = runner.lake_build(["nfdriver"])
        if rc2 != 0:
            p = write_replay(workdir, "%s-build.json" % pid, {"what": "lake build failed (model / driver)", "output": bout[-3000:]})
            print("VIOLATION property=%s replay=%s no-failing-input-found" % (pid, p))
            finish(pid, tier, seed, t0, cfg, names, [], 0, {}, [], 1, notes + ["lake build failed"], [], [])
            sys.exit(1)

    # ---- 3. harness against /repo's working tree
    rc, hout, binp = runner.harness_build(features_default=True)
    if rc != 0:
        p = write_replay(workdir, "%s-cargo.json" % pid, {"what": "cargo build of the harness against /repo failed", "output": hout[-3000:]})
        print("VIOLATION property=%s replay=%s no-failing-input-found" % (pid, p))
        finish(pid, tier, seed, t0, cfg, names, discharged, 0, {}, [], 1, notes + ["harness build failed"], [], [])
        sys.exit(1)

    # ---- 4. correspondence + oracle
    rng = random.Random(seed)
    if args.replay:
        rp = json.load(open(args.replay))
        scens = [("replay", [o for o in rp["ops"] if o.get("op") != "scenario"])]
        corpus_scens = []
    else:
        corpus_scens = props.corpus_scenarios(pid)
        fam_scens = cfg["families"](rng, tier)
        # structure-preserving sweeps of single fields / list lengths of the abstract messages (gen.sweep_scenarios)
        sweeps = gen.sweep_scenarios(rng, fam_scens, per=1, cap=(400 if tier == "quick" else 4000))
        # history-level noise: allowed-set changes between calls, two scenarios interleaved on disjoint parser instances
        noise = gen.api_noise_scenarios(rng, fam_scens, cap=(120 if tier == "quick" else 1200))
        scens = corpus_scens + fam_scens + sweeps + noise
    nouf_bin = None
    if cfg.get("two_builds"):
        rc2, hout2, nouf_bin = runner.harness_build(features_default=False)
        if rc2 != 0:
            errs = "\n".join(l for l in hout2.splitlines() if l.startswith("error") or "-->" in l or "|" in l)[-3000:]
            p = write_replay(workdir, "%s-nobuild.json" % pid, {"property": pid, "what": "the crate does not compile with the parse_unknown_fields feature turned off: the failing configuration is the replay", "command": "cd /repo && cargo build --offline --no-default-features", "compiler_output": errs})
            print("VIOLATION property=%s replay=%s" % (pid, p))
            finish(pid, tier, seed, t0, cfg, names, discharged, 0, {}, [], 1, notes + ["--no-default-features build failed"], axioms, forbidden, tsum)
            sys.exit(1)
    ops, verdicts, crashes = run_pipeline(binp, scens, workdir, "main", mutate_per=(0 if args.replay else cfg.get("mutate_per", {}).get(tier, 0)), rng=rng, nouf_bin=nouf_bin)

    stats = analyse(pid, cfg, ops, verdicts, known)
    if cfg.get("dev_families") and not args.replay:
        # the property does not name a build profile: the recursion-depth families also run on a dev (unoptimised) build
        rcd, houtd, devbin = runner.harness_build(features_default=True, profile="dev")
        if rcd == 0:
            ops_d, verdicts_d, crashes_d = run_pipeline(devbin, cfg["dev_families"](rng, tier), workdir, "dev", rng=rng)
            st_d = analyse(pid, cfg, ops_d, verdicts_d, known)
            crashes = crashes + crashes_d
            for line, v in st_d["oracle_fail_unlisted"][:2]:
                p = write_replay(workdir, "%s-dev-oracle-%d.json" % (pid, line), {"property": pid, "profile": "dev", "what": "property predicate false on the real crate's output (dev profile build of the harness)", "verdict": strip(v), "ops": scenario_of(ops_d, line)})
                violations.append((p, ""))
            stats["evaluations"] += st_d["evaluations"]
            stats["oracle_true"] += st_d["oracle_true"]
            stats["kinds"].update({"dev:" + k: v for k, v in st_d["kinds"].items()})
            notes.append("dev-profile run: %d cases, %d oracle failures" % (st_d["evaluations"], len(st_d["oracle_fail_unlisted"])))
        else:
            notes.append("dev-profile harness build failed")
    # ---- thorough tier: time-boxed deepening — further rounds of the same families under derived seeds until the budget is used
    if tier == "thorough" and not args.replay and not stats["oracle_fail_unlisted"] and not stats["disagree"]:
        budget = float(os.environ.get("VERIF_THOROUGH_BUDGET", "600"))
        rnd = 0
        while time.time() - t0 < budget and rnd < 40:
            rnd += 1
            rng_r = random.Random(seed * 1000003 + rnd)
            fam_r = cfg["families"](rng_r, "thorough")
            scens_r = fam_r + gen.sweep_scenarios(rng_r, fam_r, per=1, cap=4000) + gen.api_noise_scenarios(rng_r, fam_r, cap=1200)
            ops_r, verdicts_r, crashes_r = run_pipeline(binp, scens_r, workdir, "deep", mutate_per=cfg.get("mutate_per", {}).get(tier, 0), rng=rng_r, nouf_bin=nouf_bin)
            st_r = analyse(pid, cfg, ops_r, verdicts_r, known)
            crashes = crashes + crashes_r
            stats["evaluations"] += st_r["evaluations"]
            stats["oracle_true"] += st_r["oracle_true"]
            stats["covered"] += st_r["covered"]
            stats["outside_classes"] += st_r["outside_classes"]
            stats["digests"] |= st_r["digests"]
            for key_ in ("kinds", "tags", "impl_outcomes", "diffparts", "known_seen"):
                for k_, v_ in st_r[key_].items():
                    stats[key_][k_] = stats[key_].get(k_, 0) + v_
            for line, v in st_r["oracle_fail_unlisted"][:2]:
                p = write_replay(workdir, "%s-deep%d-oracle-%d.json" % (pid, rnd, line), {"property": pid, "what": "property predicate false on the real crate's output (thorough tier, deepening round %d, seed %d)" % (rnd, seed * 1000003 + rnd), "verdict": strip(v), "ops": scenario_of(ops_r, line)})
                violations.append((p, ""))
            if not st_r["oracle_fail_unlisted"] and st_r["disagree"]:
                line, v = st_r["disagree"][0]
                p = write_replay(workdir, "%s-deep%d-correspondence-%d.json" % (pid, rnd, line), {"property": pid, "what": "model/implementation correspondence no longer checks on view %s (thorough tier, deepening round %d)" % (cfg["view"], rnd), "differs": v.get("diff"), "verdict": strip(v), "ops": scenario_of(ops_r, line)})
                violations.append((p, "no-failing-input-found"))
            if violations:
                break
        notes.append("thorough tier: %d deepening rounds under derived seeds within a budget of %.0f s" % (rnd, budget))
    # ---- verdict
    for n_v, (line, v) in enumerate(stats["oracle_fail_unlisted"][:3]):
        sc = scenario_of(ops, line)
        small = None
        if n_v == 0 and not args.replay:
            small = shrink_scenario(pid, cfg, binp, sc, workdir, known, nouf_bin=nouf_bin)
        p = write_replay(workdir, "%s-oracle-%d.json" % (pid, line), {"property": pid, "what": "property predicate false on the real crate's output", "verdict": strip(v), "ops": ([{"op": "scenario", "kind": "shrunk"}] + small) if small else sc, "unshrunk_ops": sc if small else None})
        violations.append((p, ""))
    if not stats["oracle_fail_unlisted"]:
        if stats["disagree"]:
            # correspondence broken and no failing input among the generated cases: search the neighbourhood
            found = search_neighbourhood(pid, cfg, binp, ops, stats["disagree"], workdir, rng, known)
            if found:
                violations.append((found, ""))
            else:
                line, v = stats["disagree"][0]
                p = write_replay(workdir, "%s-correspondence-%d.json" % (pid, line), {"property": pid, "what": "model/implementation correspondence no longer checks on view %s" % cfg["view"], "differs": v.get("diff"), "verdict": strip(v), "ops": scenario_of(ops, line)})
                violations.append((p, "no-failing-input-found"))
        elif obligations_broken:
            what = {"build_ok": build_ok, "forbidden": forbidden, "theorems": names, "discharged": discharged, "axioms": axioms, "build_output": bout[-3000:]}
            found = search_neighbourhood(pid, cfg, binp, ops, [], workdir, rng, known, deep=True)
            p = found or write_replay(workdir, "%s-obligation.json" % pid, dict(what, what="proof obligation of Props/%s.lean no longer checks against the regenerated model" % pid))
            violations.append((p, "" if found else "no-failing-input-found"))
        elif tsum.get("fallback") and not args.replay:
            # part of the source has a shape the translator does not read: the model kept the recorded value for it, so the theorems
            # speak about the code only as far as the correspondence reaches — widen the search before accepting the run
            # (quick tier: 1200 further scenarios, so that the check of an edited tree stays a matter of a minute or two; thorough: 5000)
            found = search_neighbourhood(pid, cfg, binp, ops, [], workdir, rng, known, deep=True, deep_n=(1200 if tier == "quick" else 5000))
            notes.append("translator fallback (%s): deep neighbourhood search %s" % (",".join(tsum["fallback"]), "found a failing input" if found else "found nothing"))
            if found:
                violations.append((found, ""))
            elif search_neighbourhood.last_disagree:
                sc, v = search_neighbourhood.last_disagree[0]
                p = write_replay(workdir, "%s-correspondence-deep.json" % pid, {"property": pid, "what": "model/implementation correspondence no longer checks on view %s (deep search after a translator fallback)" % cfg["view"], "differs": v.get("diff"), "verdict": strip(v), "ops": sc})
                violations.append((p, "no-failing-input-found"))
    if os.environ.get("NF_HARVEST") == "1":
        # (maintenance only, never part of a registered command) save a small witness scenario per finding
        for k in known:
            wpath = os.path.join(VERIF, k["witness"])
            cases = stats["covered_cases"].get(k["id"], [])
            if cases and not os.path.exists(wpath):
                best = min(cases, key=lambda ln: sum(len(o.get("hex", "")) for o in scenario_of(ops, ln)))
                os.makedirs(os.path.dirname(wpath), exist_ok=True)
                sc = [dict((kk, vv) for kk, vv in o.items() if kk != "sid") for o in scenario_of(ops, best)]
                json.dump({"finding": k["id"], "ops": sc}, open(wpath, "w"), indent=1)
    for k in ([] if args.replay else known):
        ok = stats["known_seen"].get(k["id"], 0)
        if ok:
            print("KNOWN-FINDING: property=%s %s" % (pid, k["what"]))
        else:
            # a listed finding whose witness no longer fails: the code changed under the model
            notes.append("known finding %s not reproduced by its witness" % k["id"])
            p = write_replay(workdir, "%s-known-%s.json" % (pid, k["id"]), {"property": pid, "what": "witness of known finding %s no longer fails in the recorded way" % k["id"]})
            violations.append((p, "no-failing-input-found"))
    rc = 1 if violations else 0
    for p, suffix in violations:
        print(("VIOLATION property=%s replay=%s %s" % (pid, p, suffix)).rstrip())
    finish(pid, tier, seed, t0, cfg, names, discharged, stats["evaluations"], stats, crashes, len(violations), notes, axioms, forbidden, tsum)
    sys.exit(rc)


def strip(v):
    v = dict(v)
    v.pop("model", None)
    return v


def analyse(pid, cfg, ops, verdicts, known):
    key = cfg["oracle"]
    view = set(cfg["view"])
    known_classes = {k["class"]: k["id"] for k in known}
    st = {"evaluations": 0, "digests": set(), "nontrivial": 0, "oracle_true": 0, "oracle_fail_unlisted": [], "covered": 0,
          "disagree": [], "kinds": {}, "tags": {}, "impl_outcomes": {}, "known_seen": {}, "covered_cases": {}, "outside_classes": 0, "samples": [],
          "diffparts": {}}
    cur_kind = "?"
    for i, o in enumerate(ops):
        if o.get("op") == "scenario":
            cur_kind = o.get("kind", "?")
        v = verdicts.get(i)
        if not v or v.get("kind") not in ("parse", "assert"):
            continue
        if v.get("kind") == "assert" and key not in v.get("oracle", {}):
            continue
        st["evaluations"] += 1
        st["kinds"][cur_kind] = st["kinds"].get(cur_kind, 0) + 1
        st["impl_outcomes"][v.get("impl_outcome")] = st["impl_outcomes"].get(v.get("impl_outcome"), 0) + 1
        for t in v.get("tags", []):
            st["tags"][t] = st["tags"].get(t, 0) + 1
        if v.get("nontrivial") and v.get("digest") is not None:
            st["digests"].add(v["digest"])
        diff = set(v.get("diff", []))
        corr = not (diff & view) and "undecodable" not in diff
        for d in diff:
            st["diffparts"][d] = st["diffparts"].get(d, 0) + 1
        orc = v.get("oracle", {}).get(key, True)
        classes = [c for c in v.get("classes", []) if c in known_classes]
        if not classes:
            st["outside_classes"] += 1
        if orc:
            st["oracle_true"] += 1
            if not corr:
                st["disagree"].append((i, v))
        else:
            listed = [c for c in classes if c in known_classes]
            if listed and corr:
                st["covered"] += 1
                for c in listed:
                    st["known_seen"][known_classes[c]] = st["known_seen"].get(known_classes[c], 0) + 1
                    st["covered_cases"].setdefault(known_classes[c], []).append(i)
            else:
                st["oracle_fail_unlisted"].append((i, v))
        if len(st["samples"]) < 3 and v.get("nontrivial"):
            st["samples"].append({"kind": cur_kind, "hex": (o.get("hex") or "")[:160], "tags": v.get("tags"), "oracle": v.get("oracle"), "corr": corr})
    return st


def shrink_scenario(pid, cfg, binp, scen_ops, workdir, known, nouf_bin=None, budget=40):
    """delta-debugging of a failing scenario: drop operations / messages while the property predicate still
    fails on the real crate for an input outside the listed findings"""
    def fails(ops_try):
        try:
            ops2, verdicts2, _ = run_pipeline(binp, [("shrink", ops_try)], workdir, "shrink", nouf_bin=nouf_bin, op_timeout=12.0)   # a hanging candidate costs 12 s, not 60
        except Exception:
            return False
        return bool(analyse(pid, cfg, ops2, verdicts2, known)["oracle_fail_unlisted"])
    cur = [dict((k, v) for k, v in o.items() if k not in ("sid",)) for o in scen_ops if o.get("op") not in ("scenario", "config")]
    # ops produced by the encode pass carry both msgs and hex: keep the abstract form when present
    for o in cur:
        if "msgs" in o and "cutfrac" not in o:
            o.pop("hex", None)
    if not fails(cur):
        return None
    if any(o.get("op", "").startswith("assert_") for o in cur):
        # a relational scenario compares twin parsers: dropping a call from one twin changes what the assertion MEANS (the
        # shrunk scenario could "fail" for a reason the property does not forbid), so it is kept whole
        return cur
    tries = 0
    changed = True
    t_shrink = time.time()
    while changed and tries < budget and time.time() - t_shrink < 180:        # shrinking is a convenience: at most three minutes of it
        changed = False
        for i in range(len(cur) - 1, -1, -1):
            if cur[i].get("op") == "new" or tries >= budget or time.time() - t_shrink > 180:
                continue
            tries += 1
            cand = cur[:i] + cur[i + 1:]
            if fails(cand):
                cur = cand
                changed = True
                break
        if changed:
            continue
        for i, o in enumerate(cur):
            if o.get("op") == "parse" and isinstance(o.get("msgs"), list) and len(o["msgs"]) > 1 and tries < budget:
                for j in range(len(o["msgs"]) - 1, -1, -1):
                    tries += 1
                    cand = [dict(x) for x in cur]
                    cand[i]["msgs"] = o["msgs"][:j] + o["msgs"][j + 1:]
                    if fails(cand):
                        cur = cand
                        changed = True
                        break
                if changed:
                    break
    return cur


def search_neighbourhood(pid, cfg, binp, ops, disagree, workdir, rng, known, deep=False, deep_n=5000):
    """the correspondence or an obligation broke: look for a concrete input on which the property fails
    on the implementation — neighbours (mutations, truncations, shrinks) of the disagreeing scenarios
    and the property's targeted families."""
    scens = []
    for line, _ in disagree[:8]:
        sc = [o for o in scenario_of(ops, line) if o.get("op") != "scenario"]
        scens.append(("neigh", sc))
    extra = cfg["families"](rng, "quick")[:200]
    if deep:
        # a proof obligation broke (the regenerated model differs from the one the theorems are about): the executable model follows
        # the regenerated items, so the oracle is meaningful on every input — widen the search to the thorough-tier families
        # (bounded-exhaustive small histories included), capped so that the search stays within a few minutes
        big = cfg["families"](rng, "thorough")
        rng.shuffle(big)
        extra = extra + big[:deep_n]
    if not scens and not extra:
        return None
    try:
        # byte mutation only where the property's own families are run with it: a relational scenario (twin parsers compared by an
        # assert_* operation) means something else once one twin's buffer is mutated, and would "fail" for no reason the property gives
        mp = (1 if deep else 6) if cfg.get("mutate_per") else 0
        ops2, verdicts2, _ = run_pipeline(binp, scens + extra, workdir, "search", mutate_per=mp, rng=rng)
    except Exception:
        return None
    st = analyse(pid, cfg, ops2, verdicts2, known)
    search_neighbourhood.last_disagree = [(scenario_of(ops2, line), v) for line, v in st["disagree"][:1]]
    if st["oracle_fail_unlisted"]:
        line, v = st["oracle_fail_unlisted"][0]
        return write_replay(workdir, "%s-found-%d.json" % (pid, line), {"property": pid, "what": "property predicate false on the real crate's output (found by neighbourhood search)", "verdict": strip(v), "ops": scenario_of(ops2, line)})
    return None


search_neighbourhood.last_disagree = []


def finish(pid, tier, seed, t0, cfg, names, discharged, evaluations, stats, crashes, nviol, notes, axioms, forbidden, tsum=None):
    cov = {
        "obligations": max(len(names), 1) if names else 0,
        "discharged": len(discharged),
        "checker_cmd": "cd /verif/lean && lake build %s && lake env lean <#print axioms audit>" % " ".join("NetflowModel.Props." + m for m in prop_modules(pid)),
        "trusted_base": TRUSTED_BASE,
        "theorems": names,
        "axioms": axioms,
        "forbidden_tokens_found": forbidden,
        "translator": tsum,
        "evaluations": evaluations,
        "distinct_nontrivial": len(stats.get("digests", ())) if stats else 0,
        "rule": cfg.get("rule", "") + " — a case is one parse_bytes call inside a complete operation history; non-trivial = the real crate returned at least one record, flowset or error element; distinct = distinct hash of the canonical dump of packets+caches",
        "samples": (stats.get("samples") if stats else None) or [{"note": "no case ran"}],
        "traces_validated_against_impl": evaluations,
        "correspondence_view": cfg.get("view"),
        "scenario_kinds": stats.get("kinds") if stats else {},
        "packet_kinds_returned_by_impl": stats.get("tags") if stats else {},
        "impl_outcomes": stats.get("impl_outcomes") if stats else {},
        "oracle_true": stats.get("oracle_true", 0) if stats else 0,
        "oracle_failures_unlisted": len(stats.get("oracle_fail_unlisted", [])) if stats else 0,
        "oracle_failures_covered_by_known_findings": stats.get("covered", 0) if stats else 0,
        "model_disagreements": len(stats.get("disagree", [])) if stats else 0,
        "diff_parts_anywhere": stats.get("diffparts") if stats else {},
        "cases_outside_all_finding_classes": stats.get("outside_classes", 0) if stats else 0,
        "harness_crashes": crashes,
        "notes": notes,
    }
    ev = {
        "property_id": pid, "tier": tier, "seed": seed, "level": cfg.get("level", "proof"), "coverage": cov,
        "assumptions": TRUSTED_BASE, "wall_s": round(time.time() - t0, 1), "violations": nviol,
    }
    if ev["level"] == "proof" and (cov["obligations"] == 0):
        ev["level"] = "translation_validation"
        cov["programs"] = max(evaluations, 1)
        cov["disagreements_checked"] = cov["model_disagreements"]
    with open(os.path.join(VERIF, "evidence", pid + ".json"), "w") as f:
        json.dump(ev, f, indent=1, default=str)


if __name__ == "__main__":
    main()
