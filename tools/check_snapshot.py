#!/usr/bin/env python3
"""check_snapshot.py — the committed fallback snapshot (tools/generated_snapshot.json) must cover EVERY item the translator extracts,
otherwise a harmless refactoring of the corresponding source shape could not fall back and would be reported as unreadable source."""
import json, os, sys
HERE = os.path.dirname(os.path.abspath(__file__))
sys.path.insert(0, HERE)
import translate
out, problems = translate.gen()
snap = json.load(open(os.path.join(HERE, "generated_snapshot.json")))
missing = sorted(k for k in out if k not in snap) + sorted(k for k in problems if k not in snap)
if missing:
    print("snapshot lacks items: %s  (run NF_WRITE_SNAPSHOT=1 python3 tools/translate.py on the unchanged tree)" % ", ".join(missing))
    sys.exit(1)
print("snapshot covers all %d items" % len(out))
