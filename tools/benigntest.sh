#!/bin/bash
# benigntest.sh <diff> [checks...] — apply a behaviour-preserving refactoring to /repo, run the quick checks, revert.
# Every check must stay at exit 0 without a VIOLATION line (a false alarm otherwise).  Serialised with seedtest.sh through a lock.
set -u
diff=$1; shift
checks="${@:-C01 C02 C03 C04 C05 C06 C07 C08 C09 C10 C11 C12 C13 C14 C15 C16 C17}"
exec 9>/tmp/repo.lock; flock 9
rm -rf /tmp/evidence_keep && cp -r /verif/evidence /tmp/evidence_keep
cd /repo && git apply "$diff" || { echo "BENIGN $diff: patch does not apply"; exit 2; }
res=""
for c in $checks; do
  o=$(cd /verif && python3 check.py $c --tier quick 2>&1 | grep -E "^VIOLATION" | head -1)
  fb=$(python3 -c "import json;e=json.load(open('/verif/evidence/$c.json'));print(','.join((e['coverage'].get('translator') or {}).get('fallback',[])))" 2>/dev/null)
  if [ -n "$o" ]; then res="$res $c:ALARM"; echo "  $c -> $o"; cp $(echo "$o" | sed -E 's/.*replay=([^ ]+).*/\1/') /tmp/benign_alarm_$(basename $diff)_$c.json 2>/dev/null; else res="$res $c:quiet"; fi
  [ -n "$fb" ] && echo "  $c translator fallback: $fb"
done
cd /repo && git checkout -- .
python3 /verif/tools/translate.py > /dev/null
rm -rf /verif/evidence && cp -r /tmp/evidence_keep /verif/evidence
echo "BENIGN $(basename $(dirname $(dirname $diff)))/$(basename $diff):$res"
