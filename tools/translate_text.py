#!/usr/bin/env python3
"""translate_text.py — the CLOSURE of the translator: a token fingerprint of every source file, of the file set and of the manifest.

The other translate_*.py modules regenerate the PARAMETERS of the model (tables, layouts, the control skeleton, the exporter programs, the
derive(Nom) record structs, the serde schema).  Everything else of the model is hand-written against one particular text of the crate.  A
recogniser that looks for shapes can be fooled from outside the shape: a `use … as` that renames what a recognised name denotes, an inherent
`fn parse` that shadows the derived one, a hand-written `Clone`/`Default`/`Ord`, a `#[path]`, a `[lib] path` in Cargo.toml, an attribute
written so that a regex does not see it (second audit, DESIGN §12.12).  Instead of chasing each trick, this module records, per file, the
SHA-256 of the file's token sequence (comments and white space removed by a real lexer, trailing commas normalised) in the committed snapshot
and reports the item `text:<file>` as Unrecognised whenever the current text differs — whatever the edit is.  So, for every run:

    either  every file has exactly the tokens the hand-written model parts (and the recognisers) were written against,
    or      the evidence names the files that differ, the run falls back for these items and check.py widens its search (the
            correspondence run over the thorough-tier families decides), and any regenerated parameter that changed re-checks the proofs.

An edit to a comment or to the layout of the code changes nothing; any other edit is at least never silent.  `NF_WRITE_SNAPSHOT=1` (a
maintenance action on the unchanged tree, never part of a registered command) records the current fingerprints."""
import hashlib
import json
import os
import re

LIB_FILES = [
    "lib.rs", "netflow_common.rs", "protocol.rs", "tests.rs",
    "static_versions/mod.rs", "static_versions/v5.rs", "static_versions/v7.rs",
    "variable_versions/mod.rs", "variable_versions/v9.rs", "variable_versions/ipfix.rs", "variable_versions/data_number.rs",
    "variable_versions/v9_lookup.rs", "variable_versions/ipfix_lookup.rs",
]

# multi-character operators, longest first (maximal munch, as rustc's lexer does before it splits `>>` in generics)
OPS = ["<<=", ">>=", "...", "..=", "::", "->", "=>", "==", "!=", "<=", ">=", "&&", "||", "+=", "-=", "*=", "/=", "%=", "^=", "&=", "|=", "<<", ">>", ".."]


class Unrecognised(Exception):
    pass


def tokens(src, strip_comments):
    """token sequence of Rust source: identifiers / numbers / lifetimes, string / raw-string / char literals verbatim, operators by
    maximal munch; comments and white space dropped; a comma directly before a closing bracket dropped (rustfmt adds and removes it)"""
    s = strip_comments(src)
    out = []
    i, n = 0, len(s)
    while i < n:
        c = s[i]
        if c.isspace():
            i += 1
            continue
        m = re.match(r'b?r(#*)"', s[i:]) if c in "br" else None
        if m and (i == 0 or not (s[i - 1].isalnum() or s[i - 1] == "_")):
            close = '"' + m.group(1)
            j = s.find(close, i + m.end())
            if j < 0:
                raise Unrecognised("unterminated raw string")
            out.append(s[i:j + len(close)])
            i = j + len(close)
            continue
        if c == '"' or (c == "b" and s.startswith('b"', i)):
            j = i + (2 if c == "b" else 1)
            while j < n and s[j] != '"':
                j += 2 if s[j] == "\\" else 1
            if j >= n:
                raise Unrecognised("unterminated string")
            out.append(s[i:j + 1])
            i = j + 1
            continue
        if c == "'":
            m2 = re.match(r"'(\\.[^']*|[^'\\])'", s[i:])
            if m2:
                out.append(m2.group(0))
                i += m2.end()
                continue
            m3 = re.match(r"'[A-Za-z_][A-Za-z0-9_]*", s[i:])
            if m3:
                out.append(m3.group(0))          # lifetime / label
                i += m3.end()
                continue
        m = re.match(r"[A-Za-z_][A-Za-z0-9_]*|[0-9][A-Za-z0-9_]*(?:\.[0-9][A-Za-z0-9_]*)?", s[i:])
        if m:
            out.append(m.group(0))
            i += m.end()
            continue
        for op in OPS:
            if s.startswith(op, i):
                out.append(op)
                i += len(op)
                break
        else:
            out.append(c)
            i += 1
    norm = []
    for k, t in enumerate(out):
        if t == "," and k + 1 < len(out) and out[k + 1] in (")", "]", "}"):
            continue
        norm.append(t)
    return norm


def cut_test_modules(toks):
    """drop every TOP-LEVEL `#[cfg(test)] mod name { … }` (test-only code is not part of the library a user links): a new or edited unit
    test is not an edit of the library.  Anything else under a cfg stays in the fingerprint."""
    head = ["#", "[", "cfg", "(", "test", ")", "]", "mod"]
    out, i, depth, n = [], 0, 0, len(toks)
    while i < n:
        if depth == 0 and toks[i:i + 8] == head and i + 9 < n and toks[i + 9] == "{":
            j, d = i + 9, 0
            while j < n:
                if toks[j] == "{":
                    d += 1
                elif toks[j] == "}":
                    d -= 1
                    if d == 0:
                        break
                j += 1
            if j >= n:
                raise Unrecognised("unbalanced test module")
            i = j + 1
            continue
        if toks[i] == "{":
            depth += 1
        elif toks[i] == "}":
            depth -= 1
        out.append(toks[i])
        i += 1
    return out


def fingerprint(toks):
    h = hashlib.sha256()
    for t in toks:
        h.update(t.encode("utf-8", "surrogatepass"))
        h.update(b"\x00")
    return h.hexdigest()


def _expected(key):
    snap = os.path.join(os.path.dirname(os.path.abspath(__file__)), "generated_snapshot.json")
    try:
        return json.load(open(snap)).get(key)
    except Exception:
        return None


def _check(key, value, what):
    if os.environ.get("NF_WRITE_SNAPSHOT") == "1":
        return value
    exp = _expected(key)
    if exp is None:
        raise Unrecognised("no recorded fingerprint for %s" % what)
    if exp != value:
        raise Unrecognised("%s differs from the text the model was written against (recorded %s…, now %s…)" % (what, str(exp.get("sha"))[:12], str(value.get("sha"))[:12]))
    return value


def file_item(src_root, rel, strip_comments):
    def f():
        p = os.path.join(src_root, rel)
        if not os.path.exists(p):
            raise Unrecognised("source file %s is missing" % rel)
        toks = cut_test_modules(tokens(open(p).read(), strip_comments))
        return _check("text:" + rel, {"sha": fingerprint(toks), "tokens": len(toks)}, "src/" + rel)
    return f


def files_item(src_root):
    def f():
        found = []
        for root, dirs, files in os.walk(src_root):
            for fn in files:
                rel = os.path.relpath(os.path.join(root, fn), src_root)
                if fn.endswith(".snap") or fn.endswith(".snap.new"):
                    continue
                found.append(rel)
        extra = sorted(set(found) - set(LIB_FILES))
        missing = sorted(set(LIB_FILES) - set(found))
        if extra or missing:
            raise Unrecognised("file set of src/ changed: new %r, missing %r" % (extra, missing))
        crate = os.path.dirname(os.path.abspath(src_root))
        if os.path.exists(os.path.join(crate, "build.rs")):
            raise Unrecognised("a build script (build.rs) appeared")
        return {"files": sorted(found)}
    return f


def manifest_item(src_root, name):
    """Cargo.toml: features, dependencies, [lib], profiles decide WHAT is compiled and against which versions (Cargo.lock is not
    tracked by the repository; the harness builds against its own committed copy, harness/Cargo.lock)"""
    def f():
        crate = os.path.dirname(os.path.abspath(src_root))
        p = os.path.join(crate, name)
        if not os.path.exists(p):
            raise Unrecognised("%s is missing" % name)
        lines, keep = [], True
        for ln in open(p).read().splitlines():
            ln = re.sub(r"\s+#.*$", "", ln) if not ln.lstrip().startswith("#") else ""
            ln = re.sub(r"\s+", " ", ln.strip())
            if not ln:
                continue
            m = re.match(r"\[+\s*([A-Za-z0-9_.-]+)", ln)
            if m:
                # sections that cannot change what the LIBRARY is: dev-dependencies, benches, examples, tests, badges
                keep = not re.match(r"(dev-dependencies|bench|example|test|badges)\b", m.group(1))
            if keep and not re.match(r"(name|description|version|authors|license|categories|keywords|readme|repository|homepage|documentation) ?=", ln):
                lines.append(ln)
        return _check("text:" + name, {"sha": fingerprint(lines), "tokens": len(lines)}, name)
    return f


def items(src_root, strip_comments):
    out = [("text:files", files_item(src_root)), ("text:Cargo.toml", manifest_item(src_root, "Cargo.toml"))]
    for rel in LIB_FILES:
        out.append(("text:" + rel, file_item(src_root, rel, strip_comments)))
    return out
