#!/usr/bin/env python3
"""mkmanifest.py — writes MANIFEST.json from tools/manifest_src.py (keeps it schema-valid)."""
import json, os, sys
HERE = os.path.dirname(os.path.abspath(__file__))
sys.path.insert(0, HERE)
import manifest_src as M

allp = [json.loads(l)["id"] for l in open(os.path.join(HERE, "..", "properties.jsonl"))]
checks = []
for pid in allp:
    if pid not in M.CLAIMS:
        continue
    c = M.CLAIMS[pid]
    checks.append({
        "property_id": pid,
        "quick_cmd": "python3 check.py %s --tier quick" % pid,
        "thorough_cmd": "python3 check.py %s --tier thorough" % pid,
        "evidence_file": "/verif/evidence/%s.json" % pid,
        "replay_cmd_template": "python3 check.py %s --replay {path}" % pid,
        "engine": "lean4-model+correspondence",
        "level_claimed": {"category": c["category"], "text": c["text"], "design_ref": c.get("design_ref", "DESIGN.md §5")},
        "level_note": c["note"],
        "technique": c["technique"],
    })
man = {
    "version": 1,
    "setup_cmd": "bash setup.sh",
    "hooks": {
        "guard": "netflow_parser_verif",
        "enable": "no source hooks: all observables are public API; the harness (harness/nfh) is a separate crate with a path dependency on /repo, built by every check",
        "baseline_off_cmd": "cd /repo && cargo test --workspace --no-fail-fast --offline",
        "source_commits": M.HOOK_COMMITS,
        "add_only": True,
    },
    "engines": [{
        "name": "lean4-model+correspondence", "path": "/verif/lean",
        "serves_properties": [c["property_id"] for c in checks],
        "kind_free_text": "Lean 4 model of the crate (lean/NetflowModel), theorems per property (Props/), tables, layouts, value-codec arms, control skeleton and exporter programs regenerated from the Rust source by tools/translate.py on every run, executable model compared with the real crate through harness/nfh and the nfdriver line protocol",
    }],
    "checks": checks,
    "notes": M.NOTES,
    "not_applicable": [{"property_id": p, "reason": M.NOT_CLAIMED.get(p, "check not built yet in this round (work in progress; see DESIGN.md §5 for the planned theorems)")} for p in allp if p not in M.CLAIMS],
}
json.dump(man, open(os.path.join(HERE, "..", "MANIFEST.json"), "w"), indent=1)
print("claimed:", [c["property_id"] for c in checks])
