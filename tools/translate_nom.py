#!/usr/bin/env python3
"""translate_nom.py — the derive(Nom) TEMPLATE-RECORD structs of v9.rs / ipfix.rs as field programs.

For `Templates`, `OptionsTemplates`, `Template`, `OptionsTemplate`, `OptionsTemplateScopeField`, `TemplateField` (v9.rs) and
`Template`, `OptionsTemplate`, `TemplateField` (ipfix.rs): the ordered list of fields with what nom-derive generates for each —
    be w                      integer field of w bytes (u8/u16/u32/u64)
    value                     #[nom(Value(..))]: no bytes (a derived enum)
    count S (field n)         #[nom(Count = "n")]  Vec<S>
    count S (fieldDiv n d)    #[nom(Count = "(n / d) as usize")]
    count S (ipOptCombined sc fc)   the PreExec/Parse pair of the IPFIX options template
    many0 S                   Vec<S> without attribute  (many0(complete(S::parse)))
    rest                      Vec<u8> without attribute (the rest of the input)
    condBe w dep cmp thr sub  Option<uW> with Cond = "dep cmp thr" and the PostExec that subtracts `sub` from `dep` when present
Any other attribute or type raises Unrecognised (snapshot fallback).  Emitted as `Generated.nomStructs` (GeneratedNom.lean);
NomProg.lean interprets them with the model's own combinators, Lemmas/G4Nom.lean proves the interpretation IS the hand-written
template parsers."""
import re


class Unrecognised(Exception):
    pass


INT_W = {"u8": 1, "u16": 2, "u32": 4, "u64": 8}
CMP = {"<": "lt", "<=": "le", "==": "eq", "!=": "ne", ">": "gt", ">=": "ge"}
WANTED = {"v9": ["Templates", "OptionsTemplates", "Template", "OptionsTemplate", "OptionsTemplateScopeField", "TemplateField"],
          "ipfix": ["Template", "OptionsTemplate", "TemplateField"]}


def _block(s, i):
    depth = 0
    for j in range(i, len(s)):
        if s[j] == "{":
            depth += 1
        elif s[j] == "}":
            depth -= 1
            if depth == 0:
                return s[i + 1:j]
    raise Unrecognised("unbalanced braces")


ATTR = r"#\[(?:[^\[\]\"]|\"(?:[^\"\\]|\\.)*\"|\[[^\]]*\])*\]"


def _fields(body, what):
    """[(attrs, name, type)] in declaration order"""
    out, pos = [], 0
    tok = re.compile(r"\s*(" + ATTR + r"|pub\s+\w+\s*:\s*[\w<>:(), ]+?\s*(?:,|$))", re.S)
    attrs = []
    while pos < len(body):
        if not body[pos:].strip():
            break
        m = tok.match(body, pos)
        if not m:
            raise Unrecognised("%s: cannot tokenise at %r" % (what, body[pos:pos + 40]))
        t = m.group(1)
        pos = m.end()
        if t.startswith("#["):
            attrs.append(t)
            continue
        mm = re.fullmatch(r"pub\s+(\w+)\s*:\s*([\w<>:(), ]+?)\s*,?", t.strip())
        out.append((attrs, mm.group(1), re.sub(r"\s+", "", mm.group(2))))
        attrs = []
    return out


def struct_prog(src, name, prefix):
    ms = list(re.finditer(r"pub\s+struct\s+%s\s*\{" % name, src))
    if len(ms) != 1:
        raise Unrecognised("%s::%s: struct not found exactly once" % (prefix, name))
    head = src[max(0, ms[0].start() - 400):ms[0].start()]
    hm = re.search(r"((?:#\[(?:[^\[\]]|\[[^\]]*\])*\]\s*)+)$", head)
    sattrs = re.sub(r"\s+", "", hm.group(1)) if hm else ""
    # exactly one derive list containing Nom and no other struct-level attribute (`#[nom(LittleEndian)]` and friends change
    # what the derive generates for every field; a serde container attribute changes the JSON)
    if not re.fullmatch(r"#\[derive\([A-Za-z,]*\)\]", sattrs) or "Nom" not in re.split(r"[(),]", sattrs):
        raise Unrecognised("%s::%s: struct-level attributes %r" % (prefix, name, sattrs))
    prog = []
    for attrs, fname, ty in _fields(_block(src, ms[0].end() - 1), "%s::%s" % (prefix, name)):
        nom = [re.sub(r"\s+", "", a) for a in attrs if a.startswith("#[nom")]
        other = [a for a in attrs if not a.startswith("#[nom") and not a.startswith("#[serde") and not a.startswith("#[doc")]
        if other or len(nom) > 1:
            raise Unrecognised("%s::%s.%s: attributes" % (prefix, name, fname))
        a = nom[0] if nom else None
        mvec = re.fullmatch(r"Vec<(\w+)>", ty)
        if a is None:
            if ty in INT_W:
                prog.append([fname, "be", INT_W[ty]])
            elif ty == "Vec<u8>":
                prog.append([fname, "rest"])
            elif mvec:
                prog.append([fname, "many0", "%s::%s" % (prefix, mvec.group(1))])
            else:
                raise Unrecognised("%s::%s.%s: type %s without attribute" % (prefix, name, fname, ty))
            continue
        mv = re.fullmatch(r"#\[nom\(Value\((\w+)::from\((\w+)\)\)\)\]", a)
        if mv:
            # the derived enum value: the model computes it from `field_type_number` with the enum the field is declared as
            if mv.group(2) != "field_type_number" or mv.group(1) != ty or fname != "field_type" or not any(f[0] == "field_type_number" for f in prog):
                raise Unrecognised("%s::%s.%s: derived value %s" % (prefix, name, fname, a))
            prog.append([fname, "value"])
            continue
        m = re.fullmatch(r'#\[nom\(Count="(\w+)"\)\]', a)
        if m and mvec:
            prog.append([fname, "count", "%s::%s" % (prefix, mvec.group(1)), ["field", m.group(1)]])
            continue
        m = re.fullmatch(r'#\[nom\(Count="\((\w+)/(\d+)\)asusize"\)\]', a)
        if m and mvec:
            prog.append([fname, "count", "%s::%s" % (prefix, mvec.group(1)), ["fieldDiv", m.group(1), int(m.group(2))]])
            continue
        m = re.fullmatch(r'#\[nom\(PreExec="letcombined_count=usize::from\((\w+)\.saturating_add\((\w+)\.checked_sub\((\w+)\)\.unwrap_or\((\w+)\)\)\);",Parse="count\((\w+)::parse,combined_count\)"\)\]', a)
        if m and mvec and m.group(1) == m.group(3) and m.group(2) == m.group(4) and m.group(5) == mvec.group(1):
            prog.append([fname, "count", "%s::%s" % (prefix, mvec.group(1)), ["ipOptCombined", m.group(1), m.group(2)]])
            continue
        m = re.fullmatch(r'#\[nom\(Cond="(\w+)(<=|>=|==|!=|<|>)(\d+)",PostExec="let(\w+)=if(\w+)\.is_some\(\)\{(\w+)\.overflowing_sub\((\d+)\)\.0\}else\{(\w+)\};",'
                         r'PostExec="let(\w+)=if(\w+)\.is_some\(\)\{\w+::\w+\}else\{(\w+)\};"\)\]', a)
        mo = re.fullmatch(r"Option<(\w+)>", ty)
        if m and mo and mo.group(1) in INT_W and m.group(1) == m.group(4) == m.group(6) == m.group(8) and m.group(5) == fname == m.group(10) and m.group(9) == m.group(11):
            prog.append([fname, "condBe", INT_W[mo.group(1)], m.group(1), CMP[m.group(2)], int(m.group(3)), int(m.group(7))])
            continue
        raise Unrecognised("%s::%s.%s: nom attribute %s" % (prefix, name, fname, a[:70]))
    return prog


def translate(v9, ipf):
    out = []
    for prefix, src in (("v9", v9), ("ipfix", ipf)):
        for name in WANTED[prefix]:
            out.append(["%s::%s" % (prefix, name), struct_prog(src, name, prefix)])
    return out


def emit_lean(structs):
    def cexp(e):
        if e[0] == "field":
            return '(.field "%s")' % e[1]
        if e[0] == "fieldDiv":
            return '(.fieldDiv "%s" %d)' % (e[1], e[2])
        return '(.ipOptCombined "%s" "%s")' % (e[1], e[2])

    def fld(f):
        n, k = f[0], f[1]
        if k == "be":
            return '.be "%s" %d' % (n, f[2])
        if k == "value":
            return '.value "%s"' % n
        if k == "rest":
            return '.rest "%s"' % n
        if k == "many0":
            return '.many0 "%s" "%s"' % (n, f[2])
        if k == "count":
            return '.count "%s" "%s" %s' % (n, f[2], cexp(f[3]))
        return '.condBe "%s" %d "%s" .%s %d %d' % (n, f[2], f[3], f[4], f[5], f[6])
    L = ["/- GENERATED by tools/translate.py (translate_nom.py) from the Rust source of /repo — do not edit. -/",
         "import NetflowModel.NomProg", "namespace Netflow.Generated", "open Netflow", "",
         "/-- the derive(Nom) template-record structs of v9.rs / ipfix.rs, field by field -/",
         "def nomStructs : List (String × List NomField) := ["]
    L.append(",\n".join('  ("%s", [%s])' % (n, ", ".join(fld(f) for f in prog)) for n, prog in structs) + "]")
    L += ["", "end Netflow.Generated", ""]
    return "\n".join(L)
