#!/bin/bash
# reseed_all.sh [-P n] — regression: every seeded change under /verif/seeded must still be detected by the quick check of the property
# it targets (tools/partest.sh: private patched copy; /repo untouched).  Prints one line per seed and a summary.
P=${2:-4}
ls -d /verif/seeded/*/ | while read d; do n=$(basename $d); p=$(python3 -c "import json;print(json.load(open('$d/meta.json')).get('breaks_property') or '$n'[:3])" 2>/dev/null || echo ${n:0:3}); echo "$n $d/patch.diff $p"; done > /tmp/reseed_list.txt
cat /tmp/reseed_list.txt | xargs -P $P -L 1 bash -c 'r=$(bash /verif/tools/partest.sh rs_$0 $1 $2 2>&1 | grep "^PARTEST"); echo "$0 $r"' > /tmp/reseed_results.log 2>&1
echo "detected: $(grep -c ALARM /tmp/reseed_results.log) of $(wc -l < /tmp/reseed_list.txt)"
grep -v ALARM /tmp/reseed_results.log
