#!/usr/bin/env python3
"""gen.py — seeded generators of abstract export streams (JSON form of Lean's Spec.Msg), operation
sequences over several parser instances, and byte-level mutations.

Every random choice comes from one random.Random(seed).  The generator knows NOTHING about the
crate's behaviour: it shapes RFC-level messages (encoded by the Lean specification writer
`Spec.enc`, driver mode `encode`) and byte mutations of them.  Field numbers / library types come
from tools/generated_snapshot.json (committed snapshot of the translator's tables) only to pick
widths that the library documents as supported.
"""
import json, os, random

HERE = os.path.dirname(os.path.abspath(__file__))
SNAP = json.load(open(os.path.join(HERE, "generated_snapshot.json")))

WIDTHS = {
    "unsigned": [1, 2, 3, 4, 8, 16], "signed": [1, 2, 3, 4, 8, 16], "ip4": [4], "ip6": [16], "mac": [6], "proto": [1],
    "f64": [8], "durS": [1, 2, 3, 4, 8], "durMs": [1, 2, 3, 4, 8], "durUs": [1, 2, 3, 4, 8], "durNs": [1, 2, 3, 4, 8],
    "str": [0, 1, 2, 5, 16, 33], "vec": [0, 1, 3, 8, 20], "unknown": [1, 2, 4, 7],
}


def _types(kind):
    f = SNAP[kind]
    disc_of = dict((n, d) for n, d in f["from"])
    ty_of = dict((d, t) for d, t in f["ty"])
    out = {}
    for n, d in disc_of.items():
        out[n] = ty_of.get(d, f["tyDefault"])
    return out


def _load_literals_early():
    try:
        lits = json.load(open(os.path.join(HERE, "..", "work", "literals.json")))
    except Exception:
        lits = []
    out = set()
    for v in lits:
        for d in (-1, 0, 1):
            if 0 <= v + d <= 65535:
                out.add(v + d)
    return sorted(out)


LITERALS = _load_literals_early()
V9_TYPES = _types("v9field")      # field number -> library type name
IP_TYPES = _types("ipfield")
V9_BY_TY, IP_BY_TY = {}, {}
for n, t in V9_TYPES.items():
    V9_BY_TY.setdefault(t, []).append(n)
for n, t in IP_TYPES.items():
    IP_BY_TY.setdefault(t, []).append(n)

# fields the common view projects (keep them frequent)
COMMON_V9 = [8, 27, 12, 28, 7, 11, 4, 22, 21, 56, 80]
LOSSLESS_TYS = ["unsigned", "ip4", "ip6", "vec"]


def hx(b):
    return bytes(b).hex()


def rbytes(rng, n, style=None):
    style = style or rng.choice(["rand", "rand", "zero", "ff", "low", "hi"])
    if style == "zero":
        return bytes(n)
    if style == "ff":
        return bytes([255] * n)
    if style == "low":
        return bytes([0] * max(0, n - 1) + ([rng.randrange(256)] if n else []))
    if style == "hi":
        return bytes(([0x80 | rng.randrange(128)] if n else []) + [rng.randrange(256) for _ in range(max(0, n - 1))])
    return bytes(rng.randrange(256) for _ in range(n))


MAGIC = [0, 1, 2, 3, 4, 5, 7, 9, 10, 16, 20, 24, 30, 31, 48, 52, 255, 256, 257, 0x0005, 0x0007, 0x0009, 0x000A, 0x00050000, 0x00070000, 0x0009000A]


def rnat(rng, w):
    if rng.random() < 0.12:
        # a value that coincides with a constant of the protocols or of the source (version words, set ids, sizes)
        pool = MAGIC + [v for v in LITERALS if v >= 0]
        return rng.choice(pool) % (256 ** w)
    return int.from_bytes(rbytes(rng, w), "big")


# ------------------------------------------------------------------ V5 / V7
V5_HDR_W = [4, 4, 4, 4, 1, 1, 2]          # after version,count
V5_REC_W = [4, 4, 4, 2, 2, 4, 4, 4, 4, 2, 2, 1, 1, 1, 1, 2, 2, 1, 1, 2]
V7_HDR_W = [4, 4, 4, 4, 4]
V7_REC_W = [4, 4, 4, 2, 2, 4, 4, 4, 4, 2, 2, 1, 1, 1, 1, 2, 2, 1, 1, 2, 4]


def _fixed_rec(rng, widths):
    """one V5/V7 record; one in six is SPARSE (all fields zero except 0-3 of them): idle / zero-filled slots, at any position"""
    if rng.random() < 1 / 6:
        r = [0] * len(widths)
        for j in rng.sample(range(len(widths)), rng.choice([0, 0, 1, 2, 3])):
            r[j] = rnat(rng, widths[j])
        return r
    return [rnat(rng, w) for w in widths]


def msg_v5(rng, nrecs, proto=None):
    recs = []
    for _ in range(nrecs):
        r = _fixed_rec(rng, V5_REC_W)
        if proto is not None:
            r[13] = proto
        recs.append(r)
    return {"v5": {"hdr": [rnat(rng, w) for w in V5_HDR_W], "recs": recs}}


def msg_v7(rng, nrecs, proto=None):
    recs = []
    for _ in range(nrecs):
        r = _fixed_rec(rng, V7_REC_W)
        if proto is not None:
            r[13] = proto
        recs.append(r)
    return {"v7": {"hdr": [rnat(rng, w) for w in V7_HDR_W], "recs": recs}}


# ------------------------------------------------------------------ templates
def pick_field(rng, by_ty, tys=None, lossless=False):
    if lossless:
        ty = rng.choice(LOSSLESS_TYS)
    else:
        ty = rng.choice(tys or ["unsigned"] * 6 + ["ip4", "ip4", "ip6", "mac", "proto", "str", "vec", "signed", "f64", "durMs", "durS", "durUs", "durNs", "unknown"])
    cands = by_ty.get(ty)
    if not cands:
        ty = "unsigned"
        cands = by_ty[ty]
    if ty == "unknown" and rng.random() < 0.5:
        # a number the library has no name for (V9 has no enterprise bit: numbers >= 32768 are ordinary there)
        n = rng.choice([600, 1000, 20000, 32767] + ([32768, 33000, 40000, 65535] if by_ty is V9_BY_TY else []))
    else:
        n = rng.choice(cands)
    return n, ty, rng.choice(WIDTHS[ty])


def v9_template(rng, tid, nfields=None, lossless=False, common=False):
    k = nfields if nfields is not None else rng.randrange(1, 7)
    fields = []
    for _ in range(k):
        if common and rng.random() < 0.6:
            n = rng.choice(COMMON_V9)
            ty = V9_TYPES[n]
            w = rng.choice(WIDTHS[ty]) if ty != "unsigned" else rng.choice([2, 4, 1])
        else:
            n, ty, w = pick_field(rng, V9_BY_TY, lossless=lossless)
        fields.append({"typ": n, "len": w})
    if sum(f["len"] for f in fields) == 0:
        fields[0] = {"typ": 1, "len": 4}      # a record must occupy at least one byte
    return {"id": tid, "fieldCount": len(fields), "fields": fields}


def v9_opt_template(rng, tid, wild=False):
    ns, no = rng.randrange(1, 3), rng.randrange(1, 4)
    styps = [1, 2, 3, 4, 5] + ([0, 6, 255, 65535] if wild else [])
    scope = [{"typ": rng.choice(styps), "len": rng.choice([1, 2, 4])} for _ in range(ns)]
    opts = [{"typ": rng.choice(list(V9_TYPES)), "len": rng.choice([1, 2, 4, 8])} for _ in range(no)]
    return {"id": tid, "scopeLen": 4 * ns, "optLen": 4 * no, "scope": scope, "opts": opts}


def ip_template(rng, tid, nfields=None, lossless=False, varlen=True, enterprise=True, common=False):
    k = nfields if nfields is not None else rng.randrange(1, 7)
    fields = []
    for _ in range(k):
        if common and rng.random() < 0.6:
            n = rng.choice(COMMON_V9)
            ty = IP_TYPES[n]
            w = rng.choice(WIDTHS[ty]) if ty != "unsigned" else rng.choice([2, 4, 1])
            fields.append({"typ": n, "len": w, "ent": None})
            continue
        r = rng.random()
        if enterprise and r < 0.12:
            fields.append({"typ": rng.choice([0, 1, 32767, rng.randrange(0, 32768)]), "len": rng.choice([1, 2, 4, 8, 65535 if varlen else 4]), "ent": rng.choice([0, 1, 9, 29305, 2 ** 32 - 1])})
        elif varlen and r < 0.25:
            n = rng.choice(IP_BY_TY.get("str", []) + IP_BY_TY.get("vec", []) + IP_BY_TY.get("unknown", [])[:3])
            fields.append({"typ": n, "len": 65535, "ent": None})
        elif r < 0.30 and not lossless:
            n, ty, w = pick_field(rng, IP_BY_TY, tys=["str", "vec"])
            fields.append({"typ": n, "len": 0, "ent": None})           # zero-length field
        else:
            n, ty, w = pick_field(rng, IP_BY_TY, lossless=lossless)
            fields.append({"typ": n, "len": w, "ent": None})
    if all(f["len"] == 0 for f in fields):
        fields[0]["len"] = 4
        fields[0]["typ"] = 1
    return {"id": tid, "fields": fields}


def value_for(rng, ty, w):
    """content bytes of one field value; boundary-biased"""
    if ty == "ip6" and w == 16 and rng.random() < 0.35:
        # IPv4-mapped / IPv4-compatible / unspecified / loopback / runs of zeros
        v4 = rbytes(rng, 4)
        return rng.choice([bytes(10) + b"\xff\xff" + v4, bytes(12) + v4, bytes(16), bytes(15) + b"\x01",
                           b"\x20\x01\x0d\xb8" + bytes(8) + v4, bytes(2) + rbytes(rng, 2) + bytes(4) + rbytes(rng, 2) + bytes(6)])
    if ty == "proto":
        return bytes([rng.choice([0, 1, 6, 17, 47, 58, 132, 143, 144, 145, 255, rng.randrange(145), rng.randrange(145), rng.randrange(146, 255)])])
    if ty == "str":
        r = rng.random()
        if r < 0.55:
            return bytes(rng.choice(b"abcXYZ019 _-") for _ in range(w))
        if r < 0.8:
            # VALID multi-byte UTF-8 of exactly w bytes (2-, 3- and 4-byte sequences, padded with ASCII): characters != bytes
            out = b""
            while len(out) < w:
                ch = rng.choice(["\u00e9", "\u00fc", "\u20ac", "\u65e5", "\U0001d11e", "a", "-", "\u00df", "\uffff", "\u0080"]).encode("utf-8")
                out += ch if len(out) + len(ch) <= w else b"x"
            return out[:w]
        return rbytes(rng, w)
    return rbytes(rng, w)


def v9_record(rng, t):
    return [hx(value_for(rng, V9_TYPES.get(f["typ"], "unknown"), f["len"])) for f in t["fields"]]


def v9_opt_record(rng, t):
    return [hx(rbytes(rng, f["len"])) for f in t["scope"] + t["opts"]]


def ip_record(rng, fields):
    out = []
    for f in fields:
        if f["len"] == 65535:
            n = rng.choice([0, 1, 3, 7, 20, 254, 255, 300]) if rng.random() < 0.3 else rng.randrange(0, 12)
            form = "long" if (n >= 255 or rng.random() < 0.15) else "short"
            ty = "vec" if f["ent"] is not None else IP_TYPES.get(f["typ"], "unknown")
            out.append({"content": hx(value_for(rng, ty, n)), "form": form})
        else:
            ty = "vec" if f["ent"] is not None else IP_TYPES.get(f["typ"], "unknown")
            out.append({"content": hx(value_for(rng, ty, f["len"])), "form": "fixed"})
    return out


def rec_size_v9(t):
    return sum(f["len"] for f in t["fields"])


# ------------------------------------------------------------------ stream builder with its own template memory
class Exporter:
    """generates a conformant message stream for one (parser, protocol) pair, remembering which
    templates it has announced (latest definition wins — the RFC rule, not the crate's)."""

    def __init__(self, rng, lossless=False, common=False, simple_ipfix=False, wild=False):
        self.rng = rng
        self.wild = wild                      # also produce non-conformant shapes (reserved ids, long zero fill)
        self.dirty = False                    # a non-conformant shape was emitted: the spec oracle no longer applies
        self.v9 = {}       # id -> ("t", template) | ("o", opt template)
        self.ip = {}       # id -> ("t", spec) | ("o", spec)
        self.lossless = lossless
        self.common = common
        self.simple_ipfix = simple_ipfix      # one template record per set, no varlen-tail shapes

    def new_id(self):
        if self.wild and self.rng.random() < 0.25:
            # ids at the reserved / data boundary (non-conformant for a template id: the spec oracle is switched off)
            self.dirty = True
            return self.rng.choice([255, 255, 254, 253, 4, 2, 1, 0])
        if self.rng.random() < 0.15:
            hi = [v for v in LITERALS if v >= 256]
            if hi:
                return self.rng.choice(hi)       # template ids taken from the integer literals of the source (still conformant)
        return self.rng.choice([256, 257, 258, 300, 1000, 65535])

    def v9_msg(self, nsets=None, allow_opts=True):
        rng = self.rng
        sets = []
        k = nsets if nsets is not None else rng.randrange(1, 5)
        for _ in range(k):
            r = rng.random()
            if r < 0.35 or not self.v9:
                ts = [v9_template(rng, self.new_id(), lossless=self.lossless, common=self.common) for _ in range(rng.choice([1, 1, 2, 3]))]
                if self.wild and rng.random() < 0.15:
                    ts.append(v9_template(rng, rng.choice([0, 1, 2, 7, 255]), lossless=True))     # reserved id (non-conformant)
                    self.dirty = True
                for t in ts:
                    self.v9[t["id"]] = ("t", t)
                if self.wild and rng.random() < 0.15:
                    # an all-zero record header (id 0, no fields) BETWEEN real template records (non-conformant)
                    ts.insert(rng.randrange(0, len(ts)), {"id": 0, "fieldCount": 0, "fields": []})
                    self.dirty = True
                padn = rng.choice([0, 0, 0, 2]) if not self.wild else rng.choice([0, 0, 2, 4, 4, 8])
                if padn >= 4:
                    self.dirty = True
                sets.append({"templates": {"ts": ts, "pad": hx(bytes(padn))}})
            elif r < 0.45 and allow_opts:
                ts = [v9_opt_template(rng, self.new_id(), wild=self.wild) for _ in range(rng.choice([1, 1, 2]))]
                for t in ts:
                    self.v9[t["id"]] = ("o", t)
                    if any(f["typ"] not in (1, 2, 3, 4, 5) for f in t["scope"]):
                        self.dirty = True      # scope types outside 1..5: outside the spec oracle
                sets.append({"optTemplates": {"ts": ts, "pad": hx(bytes(rng.choice([0, 0, 2])))}})
            else:
                tid = rng.choice(list(self.v9))
                kind, t = self.v9[tid]
                if kind == "t":
                    size = rec_size_v9(t)
                    n = rng.choice([0, 1, 1, 2, 3, 7])
                    recs = [v9_record(rng, t) for _ in range(n)]
                    pad = rng.randrange(0, min(4, size)) if size > 0 else 0
                    sets.append({"data": {"id": tid, "recs": recs, "pad": hx(bytes(pad))}})
                else:
                    n = 1 if self.lossless else rng.choice([1, 1, 1, 1, 1, 2])
                    recs = [v9_opt_record(rng, t) for _ in range(n)]
                    sets.append({"data": {"id": tid, "recs": recs, "pad": hx(bytes(rng.choice([0, 0, 1, 2, 3])))}})
        up, secs, seq, sid = self._next_hdr("v9")
        return {"v9": {"m": {"count": len(sets), "sysUpTime": up, "unixSecs": secs, "seq": seq, "sourceId": sid, "sets": sets}}}

    def _next_hdr(self, key):
        """header counters of consecutive messages of one exporter EVOLVE: mostly the same source / observation domain, clocks and
        sequence numbers that advance by small steps — so that they also pass the 32-bit wrap — sometimes step back, sometimes jump;
        a third of the messages keep fully random values"""
        rng = self.rng
        prev = getattr(self, "_hdr_prev", {}).get(key)
        if prev is None or rng.random() < 0.3:
            cur = (rnat(rng, 4), rnat(rng, 4), rnat(rng, 4), rnat(rng, 4))
            if rng.random() < 0.3:
                cur = (rng.choice([0xFFFFFFFF, 0xFFFF15A0, 0xFFFFFF00, 4294900000]), cur[1], rng.choice([0xFFFFFFFF, 0xFFFFFFFE, cur[2]]), cur[3])   # about to wrap
        else:
            def step(v):
                r = rng.random()
                if r < 0.6:
                    return (v + rng.choice([0, 1, 10, 1000, 60000, 61000, 120000])) % 2 ** 32
                if r < 0.8:
                    return (v - rng.choice([1, 1000, 59000, 61000, 10 ** 6])) % 2 ** 32
                return rnat(rng, 4)
            cur = (step(prev[0]), step(prev[1]), (prev[2] + rng.choice([1, 1, 1, 0, 2, 100])) % 2 ** 32, prev[3] if rng.random() < 0.8 else rnat(rng, 4))
        if not hasattr(self, "_hdr_prev"):
            self._hdr_prev = {}
        self._hdr_prev[key] = cur
        return cur

    def ip_raw_reserved_set(self):
        """an IPFIX message (raw bytes) whose single set uses a reserved / boundary set id with a template-shaped body"""
        rng = self.rng
        sid = rng.choice([0, 1, 4, 5, 100, 254, 255, 255])
        tid = rng.choice([256, 300, 255, 254])
        nf = rng.randrange(1, 4)
        body = tid.to_bytes(2, "big") + nf.to_bytes(2, "big") + b"".join(rng.choice([1, 2, 8, 12]).to_bytes(2, "big") + rng.choice([1, 2, 4]).to_bytes(2, "big") for _ in range(nf))
        st = sid.to_bytes(2, "big") + (len(body) + 4).to_bytes(2, "big") + body
        self.dirty = True
        return {"raw": {"b": hx((10).to_bytes(2, "big") + (16 + len(st)).to_bytes(2, "big") + bytes(12) + st)}}

    def ip_msg(self, nsets=None):
        rng = self.rng
        if self.wild and rng.random() < 0.15:
            return self.ip_raw_reserved_set()
        sets = []
        k = nsets if nsets is not None else rng.randrange(1, 5)
        for _ in range(k):
            r = rng.random()
            if r < 0.35 or not self.ip:
                nt = 1 if self.simple_ipfix else rng.choice([1] * 12 + [2, 3])
                ts = [ip_template(rng, self.new_id(), lossless=self.lossless, varlen=not self.lossless, enterprise=not self.lossless, common=self.common) for _ in range(nt)]
                for t in ts:
                    self.ip[t["id"]] = ("t", t)
                sets.append({"templates": {"ts": ts, "pad": ""}})
            elif r < 0.45:
                nt = 1 if self.simple_ipfix else rng.choice([1] * 10 + [2])
                ts = []
                for _ in range(nt):
                    t = ip_template(rng, self.new_id(), lossless=self.lossless, varlen=not self.lossless, enterprise=not self.lossless)
                    t["scopeCount"] = rng.randrange(1, len(t["fields"]) + 1)
                    if self.wild and rng.random() < 0.2:
                        nf_ = len(t["fields"])
                        t["scopeCount"] = rng.choice([nf_ + 1, nf_ + 2, nf_ + 60000, 65535, 65536 - nf_, 65535 - nf_, 65537 - nf_])     # scope count above field count, also where scope + field count leaves 16 bits
                        self.dirty = True
                    ts.append(t)
                    self.ip[t["id"]] = ("o", t)
                sets.append({"optTemplates": {"ts": ts, "pad": ""}})
            else:
                tid = rng.choice(list(self.ip))
                kind, t = self.ip[tid]
                n = rng.choice([1, 1, 2, 3, 7])
                if self.wild and rng.random() < 0.12:
                    n = 0                         # a set without records (RFC 7011 3.3 wants one or more: non-conformant)
                    self.dirty = True
                recs = [ip_record(rng, t["fields"]) for _ in range(n)]
                fixed = all(f["len"] != 65535 for f in t["fields"])
                size = sum(f["len"] for f in t["fields"]) if fixed else 0
                pad = rng.randrange(0, min(4, size)) if size > 0 else 0
                sets.append({"data": {"id": tid, "recs": recs, "pad": hx(bytes(pad))}})
        _, et, seq, od = self._next_hdr("ipfix")
        return {"ipfix": {"m": {"exportTime": et, "seq": seq, "odid": od, "sets": sets}}}


WANT_ALL = ["export", "common", "json"]


def op_new(p, allowed=None):
    o = {"op": "new", "p": p}
    if allowed is not None:
        o["allowed"] = allowed
    return o


def op_parse(p, msgs=None, hexs=None, want=WANT_ALL):
    o = {"op": "parse", "p": p, "want": want}
    if msgs is not None:
        o["msgs"] = msgs
    else:
        o["hex"] = hexs
    return o


# ------------------------------------------------------------------ scenario families
def fam_fixed(rng, n, max_recs=40):
    """V5/V7 packets: all counts incl. 0, boundary values, every protocol number"""
    out = []
    for i in range(n):
        k = rng.choice([0, 1, 1, 2, 3, 30, rng.randrange(0, max_recs)])
        m = msg_v5(rng, k) if rng.random() < 0.5 else msg_v7(rng, k)
        out.append(("fixed", [op_new(0), op_parse(0, msgs=[m])]))
    return out


def fam_fixed_counts(rng, tier="quick"):
    """V5/V7: EVERY record count 0..33 once (a count can coincide with a version number, a set id, a size constant),
    alone and followed by another packet; plus large counts"""
    out = []
    big = [63, 64, 255, 256, 257] + ([1000, 1260, 1364] if tier != "quick" else [])
    for v in (5, 7):
        for k in list(range(0, 34)) + big:
            if v == 7 and k > 1259:
                continue
            m = msg_v5(rng, k) if v == 5 else msg_v7(rng, k)
            tail = [msg_v5(rng, 1)] if rng.random() < 0.5 else []
            out.append(("fixed-count", [op_new(0), op_parse(0, msgs=[m] + tail)]))
    # counts on both sides of the point where count * record size leaves 16 bits (the properties about V5/V7 put no bound on the
    # buffer; a complete packet of that size is simply a long buffer), always followed by another packet, once also cut short
    edge = {5: [1365, 1366], 7: [1260, 1261]}
    if tier != "quick":
        edge = {5: [1365, 1366, 1367, 2731, 5462], 7: [1260, 1261, 1262, 2521]}
    for v in (5, 7):
        for k in edge[v]:
            m = msg_v5(rng, k) if v == 5 else msg_v7(rng, k)
            o = op_parse(0, msgs=[m, msg_v5(rng, 1), msg_v7(rng, 1)], want=["export", "common"])
            out.append(("fixed-count-wide", [op_new(0), o]))
            o2 = op_parse(0, msgs=[m], want=["export"])
            o2["cutfrac"] = 1000
            out.append(("fixed-count-wide-cut", [op_new(0), o2]))
    return out


def fam_fixed_structs(rng, n):
    """C08 second half: well-formed V5/V7 STRUCTURES (count = number of records, every value within its field) that the
    harness builds through the public struct fields, exports and parses back"""
    out = []
    for _ in range(n):
        v = rng.choice([5, 7])
        k = rng.choice([0, 0, 1, 2, 3, 30])
        if v == 5:
            hdr = [5, k] + [rnat(rng, w) for w in V5_HDR_W]
            recs = []
            for _ in range(k):
                r = [rnat(rng, w) for w in V5_REC_W]
                recs.append(r[:14] + [0] + r[14:])            # slot 14 = derived protocol_type (filled in by the harness / driver)
        else:
            hdr = [7, k] + [rnat(rng, w) for w in V7_HDR_W]
            recs = []
            for _ in range(k):
                r = [rnat(rng, w) for w in V7_REC_W]
                recs.append(r[:14] + [0] + r[14:])
        o = {"op": "fixed_roundtrip", "v": v, "hdr": hdr, "recs": recs}
        r_ = rng.random()
        if r_ < 0.06:
            hdr[0] = rng.choice([0, 1, 6, 9, 10, 12, 65535, 5 if v == 7 else 7])          # a structure whose version FIELD is not its type's version
        elif r_ < 0.12 and recs:
            o["raw_pt"] = True                                                          # protocol_type taken from slot 14, not derived
            for r in recs:
                r[14] = rng.choice([r[13], (r[13] + 1) % 256, 6, 17, 0, 255])
        out.append(("fixed-struct", [o]))
    return out


def fam_fixed_protocols(rng):
    out = []
    for v in (5, 7):
        for lo in range(0, 256, 32):
            ops = [op_new(0)]
            msgs = []
            for p in range(lo, lo + 32):
                msgs.append(msg_v5(rng, 1, proto=p) if v == 5 else msg_v7(rng, 1, proto=p))
            ops.append(op_parse(0, msgs=msgs))
            out.append(("fixed-proto", ops))
    return out


def fam_stream(rng, n, lossless=False, common=False, simple_ipfix=False, versions=(5, 7, 9, 10), calls=(1, 6), wild=False):
    """conformant multi-call histories on one parser, mixing versions"""
    out = []
    for _ in range(n):
        ex = Exporter(rng, lossless=lossless, common=common, simple_ipfix=simple_ipfix, wild=wild)
        ops = [op_new(0)]
        for _ in range(rng.randrange(calls[0], calls[1] + 1)):
            msgs = []
            for _ in range(rng.choice([1, 1, 1, 2, 3])):
                v = rng.choice(versions)
                if v == 5:
                    msgs.append(msg_v5(rng, rng.randrange(0, 4)))
                elif v == 7:
                    msgs.append(msg_v7(rng, rng.randrange(0, 4)))
                elif v == 9:
                    msgs.append(ex.v9_msg())
                else:
                    msgs.append(ex.ip_msg())
            o = op_parse(0, msgs=msgs)
            if ex.dirty:
                o["nospec"] = True
            if "v9" in msgs[-1] and rng.random() < 0.2:
                # RFC 3954 counts RECORDS in the header (>= number of flowsets); the crate reads up to `count` flowsets and stops at the
                # end of the buffer, so such a packet decodes when it is the LAST of its buffer (theorem C04_rfc_count_partial); the
                # spec writer's expectation is defined for count = number of flowsets only, hence nospec (correspondence + other oracles)
                m = msgs[-1]["v9"]["m"]
                nrec = 0
                for st_ in m["sets"]:
                    for kind in ("templates", "optTemplates"):
                        if kind in st_:
                            nrec += len(st_[kind]["ts"])
                    if "data" in st_:
                        nrec += max(1, len(st_["data"]["recs"]))
                if nrec >= len(m["sets"]):
                    m["count"] = rng.choice([nrec, nrec, nrec + 1, 65535])
                    o["nospec"] = True
            ops.append(o)
        out.append(("stream-wild" if wild else "stream", ops))
    return out



# ------------------------------------------------------------------ small-scope exhaustive histories
def _ss_alphabet(proto):
    """a small alphabet of single-packet messages around ONE template id (256; 257 as the bystander), for the bounded-
    exhaustive history family: two templates of the same record size but different layouts, a template with a field the
    library has no type for, an options template, a rejected template, data sized for each layout, a data body shorter than a
    record, a cut packet, a V5 packet.  value: (message, effect on the exporter's memory, what it needs to be conformant)"""
    A = [{"typ": 1, "len": 4}, {"typ": 7, "len": 2}]                 # 6 bytes: octets, source port
    B = [{"typ": 8, "len": 4}, {"typ": 4, "len": 1}, {"typ": 5, "len": 1}]   # 6 bytes: IPv4 source, protocol, tos
    U = [{"typ": 1, "len": 4}, {"typ": 600, "len": 2}]               # 6 bytes, second field unknown to the library
    S7 = [{"typ": 2, "len": 4}]
    recA = [["0000ffff", "0050"], ["01020304", "ffff"]]
    recB = [["0a000001", "06", "00"], ["c0a80101", "11", "ff"]]
    recO = [["00000001", "0005"]]
    rec7 = [["00000007"], ["ffffffff"]]
    al = {}
    if proto == 9:
        def m(sets, k=1):
            return {"v9": {"m": {"count": len(sets), "sysUpTime": k, "unixSecs": k, "seq": k, "sourceId": 1, "sets": sets}}}

        def tpl(tid, fs):
            return {"templates": {"ts": [{"id": tid, "fieldCount": len(fs), "fields": fs}], "pad": ""}}
        al["Ta"] = (m([tpl(256, A)]), ("t", "A"), None)
        al["Tb"] = (m([tpl(256, B)]), ("t", "B"), None)
        al["Tu"] = (m([tpl(256, U)]), ("t", "U"), None)
        al["Tz"] = (m([tpl(256, [{"typ": 1, "len": 0}])]), ("t", "Z"), None)             # V9 accepts a zero-size template
        al["Oa"] = (m([{"optTemplates": {"ts": [{"id": 256, "scopeLen": 4, "optLen": 4, "scope": [{"typ": 1, "len": 4}], "opts": [{"typ": 1, "len": 2}]}], "pad": ""}}]), ("o", "O"), None)
        al["T7"] = (m([tpl(257, S7)]), ("t7", "S"), None)
        al["TD"] = (m([tpl(256, A), {"data": {"id": 256, "recs": recA, "pad": ""}}]), ("t", "A"), None)
        hdr = (9).to_bytes(2, "big") + (1).to_bytes(2, "big") + bytes(16)
        al["Dt"] = ({"raw": {"b": hx(hdr + (256).to_bytes(2, "big") + (40).to_bytes(2, "big") + bytes(6))}}, None, "raw")
        al["Ds"] = ({"raw": {"b": hx(hdr + (256).to_bytes(2, "big") + (5).to_bytes(2, "big") + b"\x07")}}, None, "raw")
    else:
        def m(sets, k=1):
            return {"ipfix": {"m": {"exportTime": k, "seq": k, "odid": 1, "sets": sets}}}

        def tpl(tid, fs):
            return {"templates": {"ts": [{"id": tid, "fields": [dict(f, ent=None) for f in fs]}], "pad": ""}}
        al["Ta"] = (m([tpl(256, A)]), ("t", "A"), None)
        al["Tb"] = (m([tpl(256, B)]), ("t", "B"), None)
        al["Tu"] = (m([tpl(256, U)]), ("t", "U"), None)
        al["Tz"] = (m([tpl(256, [{"typ": 82, "len": 0}])]), None, "raw")                 # rejected: no field of non-zero length
        al["Tw"] = (m([tpl(256, [])]), None, "raw")                                      # rejected: withdrawal-shaped, no fields
        al["Oa"] = (m([{"optTemplates": {"ts": [{"id": 256, "scopeCount": 1, "fields": [{"typ": 1, "len": 4, "ent": None}, {"typ": 2, "len": 2, "ent": None}]}], "pad": ""}}]), ("o", "O"), None)
        al["T7"] = (m([tpl(257, S7)]), ("t7", "S"), None)
        al["TD"] = (m([tpl(256, A), {"data": {"id": 256, "recs": [[{"content": c, "form": "fixed"} for c in r] for r in recA], "pad": ""}}]), ("t", "A"), None)
        hdr = (10).to_bytes(2, "big")
        al["Dt"] = ({"raw": {"b": hx(hdr + (60).to_bytes(2, "big") + bytes(12) + (256).to_bytes(2, "big") + (12).to_bytes(2, "big") + bytes(4))}}, None, "raw")
        al["Ds"] = ({"raw": {"b": hx(hdr + (21).to_bytes(2, "big") + bytes(12) + (256).to_bytes(2, "big") + (5).to_bytes(2, "big") + b"\x07")}}, None, "raw")

    def data(tid, recs, pad=""):
        if proto == 10:
            recs = [[{"content": c, "form": "fixed"} for c in r] for r in recs]
        return m([{"data": {"id": tid, "recs": recs, "pad": pad}}], 2)
    al["Da"] = (data(256, recA), None, ("t", "A"))
    al["Db"] = (data(256, recB), None, ("t", "B"))
    al["Do"] = (data(256, recO), None, ("o", "O"))
    al["D7"] = (data(257, rec7), None, ("t7", "S"))
    al["V5"] = ({"v5": {"m": {"sysUpTime": 1, "unixSecs": 2, "unixNsecs": 3, "flowSequence": 4, "engineType": 0, "engineId": 0, "samplingInterval": 0, "recs": []}}}, None, None)
    return al


def fam_smallscope(rng, n, protos=(9, 10), maxlen=3, want=WANT_ALL, exhaustive=False):
    """bounded-exhaustive histories: every sequence of at most `maxlen` letters of `_ss_alphabet` (quick tier: a seeded sample
    of n of them per protocol) as separate parse_bytes calls on one parser (a third of them joined into ONE call), followed by
    two probe calls with data for id 256.  The spec oracle applies while every data message is sized for the template the
    exporter announced last; from the first other message on the ops are `nospec` (correspondence and the remaining oracles)."""
    import itertools
    out = []
    v5 = msg_v5(random.Random(5), 1)
    for proto in protos:
        al = _ss_alphabet(proto)
        al["V5"] = (v5, None, None)
        letters = sorted(al)
        seqs = [s for L in range(2, maxlen + 1) for s in itertools.product(letters, repeat=L)]
        if not exhaustive and len(seqs) > n:
            seqs = rng.sample(seqs, n)
        for seq in seqs:
            mem, dirty = {}, False
            ops = [op_new(0)]
            joined = rng.random() < 0.33
            msgs_all = []
            for pos, L in enumerate(list(seq) + ["Da", "Do"]):
                in_seq = pos < len(seq)
                msg, eff, need = al[L]
                if need == "raw" or (need is not None and mem.get("7" if need[0] == "t7" else "x") != need):
                    dirty = True
                if L in ("Tz",) and proto == 9:
                    dirty = True                       # zero-size V9 template: outside the conformance predicate
                if eff is not None:
                    mem["7" if eff[0] == "t7" else "x"] = eff
                if joined and in_seq:
                    msgs_all.append(msg)
                    continue
                if msgs_all:
                    o = op_parse(0, msgs=msgs_all, want=list(want)); o["nospec"] = True; ops.append(o); msgs_all = []
                o = op_parse(0, msgs=[msg], want=list(want))
                if dirty or joined:
                    o["nospec"] = True
                ops.append(o)
            out.append(("smallscope-%d%s" % (proto, "-joined" if joined else ""), ops))
    return out

# ------------------------------------------------------------------ relational families
def rand_packets(rng, ex, n, versions=(5, 7, 9, 10)):
    msgs = []
    for _ in range(n):
        v = rng.choice(versions)
        if v == 5:
            msgs.append(msg_v5(rng, rng.randrange(0, 4)))
        elif v == 7:
            msgs.append(msg_v7(rng, rng.randrange(0, 4)))
        elif v == 9:
            msgs.append(ex.v9_msg())
        else:
            msgs.append(ex.ip_msg())
    return msgs


def fam_chain(rng, n, max_pkts=6, all_partitions=False):
    """C11: the same packet sequence joined in one call (p0), one packet per call (p1), and under
    random (or all) partitions into consecutive calls (p2..)"""
    out = []
    for _ in range(n):
        ex = Exporter(rng)
        k = rng.randrange(2, max_pkts + 1)
        msgs = rand_packets(rng, ex, k)
        if rng.random() < 0.3:
            # a header-only IPFIX message whose length field is below 16 (still a 16-byte self-delimiting packet)
            pos = rng.randrange(0, k + 1)
            msgs.insert(pos, {"raw": {"b": hx((10).to_bytes(2, "big") + rng.choice([0, 1, 8, 15, 16]).to_bytes(2, "big") + rbytes(rng, 12))}})
            k += 1
        if rng.random() < 0.2:
            # an IPFIX message whose LAST set announces more bytes than the message has left (the set is dropped, the message is still a
            # self-delimiting 16+n byte packet) — not last in the chain, so that bytes of the NEXT packet lie where the set claims to extend
            tid = rng.choice([400, 401, 256])
            kind = rng.choice(["template", "data"])
            body = (tid.to_bytes(2, "big") + (1).to_bytes(2, "big") + (1).to_bytes(2, "big") + (4).to_bytes(2, "big")) if kind == "template" else rbytes(rng, rng.choice([4, 8, 12]))
            sid = 2 if kind == "template" else rng.choice([256, 257, 300, 400])
            st_ = sid.to_bytes(2, "big") + (len(body) + 4 + rng.choice([1, 2, 4, 8, 12, 16, 20, 40])).to_bytes(2, "big") + body
            good = b""
            if rng.random() < 0.5:
                good = (2).to_bytes(2, "big") + (12).to_bytes(2, "big") + (500).to_bytes(2, "big") + (1).to_bytes(2, "big") + (2).to_bytes(2, "big") + (4).to_bytes(2, "big")
            raw = (10).to_bytes(2, "big") + (16 + len(good) + len(st_)).to_bytes(2, "big") + rbytes(rng, 12) + good + st_
            msgs.insert(rng.randrange(0, k), {"raw": {"b": hx(raw)}})
            k += 1
        if rng.random() < 0.08:
            # a V5 / V7 packet whose record block is longer than 65535 bytes (count * record size leaves 16 bits), not last
            v = rng.choice([5, 7])
            cnt = rng.choice([1365, 1366, 1367] if v == 5 else [1260, 1261, 1262])
            msgs.insert(rng.randrange(0, k), msg_v5(rng, cnt) if v == 5 else msg_v7(rng, cnt))
            k += 1
        ops = [op_new(0), op_parse(0, msgs=msgs, want=[]), op_new(1)]
        for m in msgs:
            ops.append(op_parse(1, msgs=[m], want=[]))
        ops.append({"op": "assert_chain", "a": 0, "b": 1})
        parts = []
        if all_partitions and k <= 7:
            parts = list(range(1, 2 ** (k - 1) - 1))
        else:
            parts = [rng.randrange(0, 2 ** (k - 1)) for _ in range(2)]
        pid = 2
        for mask in parts:
            ops.append(op_new(pid))
            cur = [msgs[0]]
            for i in range(1, k):
                if mask >> (i - 1) & 1:
                    ops.append(op_parse(pid, msgs=cur, want=[]))
                    cur = []
                cur.append(msgs[i])
            ops.append(op_parse(pid, msgs=cur, want=[]))
            ops.append({"op": "assert_chain", "a": 0, "b": pid})
            pid += 1
        out.append(("chain", ops))
    return out


def fam_chain_big_tail(rng, sizes=(300_000,)):
    """C11 / C02: a buffer whose FIRST packet is followed by several hundred kilobytes of further packets (any quantity derived from
    "bytes left in the buffer" — a clamp, a pre-size, an integer narrowed to u16/u32 — sees values it never sees on a single
    datagram): first packet of every version (V9 and IPFIX with a template and its data), then V5/V7 packets of 30 records until the
    size is reached, then a data packet that needs the template of the first; joined in one call vs one packet per call"""
    out = []
    for size in sizes:
        for first in (9, 10, 5):
            ex = Exporter(rng, lossless=True, simple_ipfix=True)
            if first == 5:
                head = [msg_v5(rng, 2)]
                tail_end = [msg_v7(rng, 1)]
            else:
                head = rand_packets(rng, ex, 1, versions=(first,))
                tail_end = rand_packets(rng, ex, 1, versions=(first,))
            fill, total = [], 0
            while total < size:
                v = rng.choice([5, 7])
                fill.append(msg_v5(rng, 30) if v == 5 else msg_v7(rng, 30))
                total += (24 + 48 * 30) if v == 5 else (24 + 52 * 30)
            msgs = head + fill + tail_end
            ops = [op_new(0), op_parse(0, msgs=msgs, want=[]), op_new(1)]
            for m in msgs:
                ops.append(op_parse(1, msgs=[m], want=[]))
            ops.append({"op": "assert_chain", "a": 0, "b": 1})
            for o in ops:
                if o.get("op") == "parse":
                    o["nospec"] = True
            out.append(("chain-big-tail-%d-%dk" % (first, size // 1000), ops))
    return out


def fam_dup_in_set(rng, n):
    """C06 / C04 / C05: ONE template (or options-template) flowset / set that defines the same id more than once — the last
    definition wins, whatever the cache held before (a definition equal to the cached one after a different one in the same set,
    a different one after an equal one, three in a row); then data for that id, in the same packet and in a later call"""
    out = []
    for _ in range(n):
        proto = rng.choice([9, 10])
        tid = rng.choice([256, 257, 300, 1024])
        def tmpl(lens):
            if proto == 9:
                return {"id": tid, "fieldCount": len(lens), "fields": [{"typ": t, "len": l} for t, l in lens]}
            return {"id": tid, "fields": [{"typ": t, "len": l, "ent": None} for t, l in lens]}
        A = [(1, 4), (2, 4)]
        B = rng.choice([[(1, 4)], [(1, 2), (2, 2), (10, 2)], [(2, 8)], [(1, 4), (2, 2)]])
        C = rng.choice([[(10, 4)], [(1, 1)], A])
        order = rng.choice([[B, A], [A, B], [A, B, A], [B, C, A], [B, B], [A, A, B], [C, B, A]])
        k = [1]
        def pkt(sets):
            k[0] += 1
            if proto == 9:
                return {"v9": {"m": {"count": len(sets), "sysUpTime": k[0], "unixSecs": k[0], "seq": k[0], "sourceId": 1, "sets": sets}}}
            return {"ipfix": {"m": {"exportTime": k[0], "seq": k[0], "odid": 1, "sets": sets}}}
        def data(lens, nrec):
            recs = []
            for _ in range(nrec):
                if proto == 9:
                    recs.append([hx(rbytes(rng, l)) for _, l in lens])
                else:
                    recs.append([{"content": hx(rbytes(rng, l)), "form": "fixed"} for _, l in lens])
            return {"data": {"id": tid, "recs": recs, "pad": ""}}
        final = order[-1]
        ops = [op_new(0)]
        if rng.random() < 0.8:
            # the cache already holds A (or B) for the id
            pre = rng.choice([A, B])
            ops.append(op_parse(0, msgs=[pkt([{"templates": {"ts": [tmpl(pre)], "pad": ""}}, data(pre, 1)])]))
        if proto == 9:
            dup = [{"templates": {"ts": [tmpl(x) for x in order], "pad": ""}}]
        else:
            # IPFIX: the crate reads ONE template record per set (a recorded finding of C05), so the repeated definitions are
            # consecutive sets of one message
            dup = [{"templates": {"ts": [tmpl(x)], "pad": ""}} for x in order]
        if rng.random() < 0.5:
            ops.append(op_parse(0, msgs=[pkt(dup + [data(final, 2)])]))
        else:
            ops.append(op_parse(0, msgs=[pkt(dup)]))
        ops.append(op_parse(0, msgs=[pkt([data(final, rng.choice([1, 3]))])]))
        out.append(("dup-in-set-%d" % proto, ops))
    return out


def fam_redefine_in_packet(rng, n, want=("export", "common", "json"), lossless=False):
    """C01 / C04 / C05 / C06 / C13: ONE packet in which an id is used, REDEFINED and used again —
    [template A][data A][template A'][data A'] (the first definition possibly from an earlier call) — where A' has fewer, more,
    reordered or differently typed fields than A (anything remembered per id, per packet or per flowset across the redefinition —
    a layout, a plan, a record size — meets a record it does not fit).  The projected fields of the common view are among the
    fields, all conversions are requested"""
    out = []
    pool9 = [(1, 4), (2, 4), (7, 2), (11, 2), (8, 4), (12, 4), (27, 16), (28, 16), (4, 1), (21, 4), (22, 4), (56, 6), (80, 6), (10, 2)]
    pool10 = [(1, 4), (2, 4), (7, 2), (11, 2), (8, 4), (12, 4), (27, 16), (28, 16), (4, 1), (152, 8), (153, 8), (56, 6), (80, 6), (10, 2)]
    if lossless:
        # only fields whose decoded value keeps every byte (numbers of natural width, addresses): the value-kind findings of C04/C05
        # (protocol names, MAC text, durations) stay out of properties that do not list them
        pool9 = pool10 = [(1, 4), (2, 4), (7, 2), (11, 2), (8, 4), (12, 4), (27, 16), (28, 16), (10, 2), (14, 2)]
    for _ in range(n):
        proto = rng.choice([9, 10])
        pool = pool9 if proto == 9 else pool10
        tid = rng.choice([256, 257, 999])
        A = rng.sample(pool, rng.randrange(2, 7))
        kind = rng.choice(["fewer", "more", "reorder", "other", "one"])
        if kind == "fewer":
            B = A[:rng.randrange(1, len(A))]
        elif kind == "more":
            B = A + rng.sample(pool, rng.randrange(1, 4))
        elif kind == "reorder":
            B = list(reversed(A))
        elif kind == "one":
            B = [rng.choice(pool)]
        else:
            B = rng.sample(pool, rng.randrange(1, 6))
        k = [rng.randrange(1, 1000)]
        def tmpl(lens):
            if proto == 9:
                return {"templates": {"ts": [{"id": tid, "fieldCount": len(lens), "fields": [{"typ": t, "len": l} for t, l in lens]}], "pad": ""}}
            return {"templates": {"ts": [{"id": tid, "fields": [{"typ": t, "len": l, "ent": None} for t, l in lens]}], "pad": ""}}
        def data(lens, nrec):
            recs = []
            for _ in range(nrec):
                if proto == 9:
                    recs.append([hx(rbytes(rng, l)) for _, l in lens])
                else:
                    recs.append([{"content": hx(rbytes(rng, l)), "form": "fixed"} for _, l in lens])
            return {"data": {"id": tid, "recs": recs, "pad": ""}}
        def pkt(sets):
            k[0] += 1
            if proto == 9:
                return {"v9": {"m": {"count": len(sets), "sysUpTime": k[0], "unixSecs": k[0], "seq": k[0], "sourceId": 1, "sets": sets}}}
            return {"ipfix": {"m": {"exportTime": k[0], "seq": k[0], "odid": 1, "sets": sets}}}
        ops = [op_new(0)]
        w = list(want)
        if rng.random() < 0.4:
            ops.append(op_parse(0, msgs=[pkt([tmpl(A)])], want=w))
            ops.append(op_parse(0, msgs=[pkt([data(A, rng.choice([1, 2])), tmpl(B), data(B, rng.choice([1, 3]))])], want=w))
        else:
            ops.append(op_parse(0, msgs=[pkt([tmpl(A), data(A, rng.choice([1, 2])), tmpl(B), data(B, rng.choice([1, 3]))])], want=w))
        if rng.random() < 0.5:
            ops.append(op_parse(0, msgs=[pkt([data(B, 1)])], want=w))
        out.append(("redefine-in-packet-%d-%s" % (proto, kind), ops))
    return out


def fam_chain_many_templates(rng, sizes=(1100,)):
    """C11 / C06: ONE packet that announces more than a thousand templates (ids 256..), then data for the first, a middle and the last
    of them — joined in one call on parser 0, one packet per call on parser 1 (any bookkeeping keyed to the cache SIZE that runs per
    call, per packet or per buffer shows as a difference between the two deliveries)"""
    out = []
    for M in sizes:
        for proto in (9, 10):
            # an IPFIX message carries its own 16-bit length: 16 + 18 bytes per one-template set (22 per options-template set) must
            # stay below 65536, otherwise the encoder's length field wraps and the "chain" is not a chain of messages at all
            Mp = M if proto == 9 else min(M, 2900)
            ids = [256 + i for i in range(Mp)]
            probe = [ids[0], ids[Mp // 2], ids[-1]]
            if proto == 9:
                def m9(sets, k):
                    return {"v9": {"m": {"count": len(sets), "sysUpTime": k, "unixSecs": k, "seq": k, "sourceId": 1, "sets": sets}}}
                tm = m9([{"templates": {"ts": [{"id": i, "fieldCount": 1, "fields": [{"typ": 1, "len": 4}]} for i in ids], "pad": ""}}], 1)
                om = m9([{"optTemplates": {"ts": [{"id": 30000 + i, "scopeLen": 4, "optLen": 4, "scope": [{"typ": 1, "len": 4}], "opts": [{"typ": 2, "len": 4}]} for i in ids], "pad": ""}}], 1)
                datas = [m9([{"data": {"id": i, "recs": [["0000002a"]], "pad": ""}}], 2) for i in probe]
                odatas = [m9([{"data": {"id": 30000 + i, "recs": [["00000001", "00000002"]], "pad": ""}}], 2) for i in probe[:1]]
            else:
                def mi(sets, k):
                    return {"ipfix": {"m": {"exportTime": k, "seq": k, "odid": 1, "sets": sets}}}
                tm = mi([{"templates": {"ts": [{"id": i, "fields": [{"typ": 1, "len": 4, "ent": None}]}], "pad": ""}} for i in ids], 1)
                om = mi([{"optTemplates": {"ts": [{"id": 30000 + i, "scopeCount": 1, "fields": [{"typ": 1, "len": 4, "ent": None}, {"typ": 2, "len": 4, "ent": None}]}], "pad": ""}} for i in ids], 1)
                datas = [mi([{"data": {"id": i, "recs": [[{"content": "0000002a", "form": "fixed"}]], "pad": ""}}], 2) for i in probe]
                odatas = [mi([{"data": {"id": 30000 + i, "recs": [[{"content": "00000001", "form": "fixed"}, {"content": "00000002", "form": "fixed"}]], "pad": ""}}], 2) for i in probe[:1]]
            for first, later in ((tm, datas), (om, odatas)):
                msgs = [first] + later
                ops = [op_new(0), op_parse(0, msgs=msgs, want=[]), op_new(1)]
                for m in msgs:
                    ops.append(op_parse(1, msgs=[m], want=[]))
                ops.append({"op": "assert_chain", "a": 0, "b": 1})
                for o in ops:
                    if o.get("op") == "parse":
                        o["nospec"] = True
                out.append(("chain-many-templates-%d" % proto, ops))
    return out


def fam_chain_minimal(rng, n):
    """C11: LONG chains (6..60) of minimal self-delimiting packets — header-only V5/V7/V9/IPFIX in every mix, so that the number
    of packets per byte is maximal — optionally ending in a template message whose data arrives in the next call"""
    out = []
    for _ in range(n):
        ex = Exporter(rng, lossless=True, simple_ipfix=True)
        k = rng.choice([6, 7, 8, 9, 10, 12, 16, 24, 40, 60])
        mix = rng.choice([(10,), (9,), (5,), (7,), (10, 9), (5, 7, 9, 10), (10, 10, 10, 5)])
        msgs = []
        for _ in range(k):
            v = rng.choice(mix)
            if v == 5:
                msgs.append(msg_v5(rng, 0))
            elif v == 7:
                msgs.append(msg_v7(rng, 0))
            elif v == 9:
                msgs.append({"v9": {"m": {"count": 0, "sysUpTime": rnat(rng, 4), "unixSecs": rnat(rng, 4), "seq": rnat(rng, 4), "sourceId": rnat(rng, 4), "sets": []}}})
            else:
                msgs.append({"ipfix": {"m": {"exportTime": rnat(rng, 4), "seq": rnat(rng, 4), "odid": rnat(rng, 4), "sets": []}}})
        tail = []
        if rng.random() < 0.6:
            v = rng.choice([9, 10])
            tm = ex.v9_msg(nsets=1) if v == 9 else ex.ip_msg(nsets=1)          # first set of a fresh exporter is a template set
            msgs.append(tm)
            tail = rand_packets(rng, ex, 1, versions=(v,))
        ops = [op_new(0), op_parse(0, msgs=msgs, want=[])]
        if tail:
            ops.append(op_parse(0, msgs=tail, want=[]))
        ops.append(op_new(1))
        for m in msgs:
            ops.append(op_parse(1, msgs=[m], want=[]))
        if tail:
            ops.append(op_parse(1, msgs=tail, want=[]))
        ops.append({"op": "assert_chain", "a": 0, "b": 1})
        out.append(("chain-minimal", ops))
    return out


def raw_version_msg(rng, v):
    return {"raw": {"b": hx(v.to_bytes(2, "big") + rbytes(rng, rng.choice([0, 1, 5, 22, 40])))}}


def msg_version(m):
    if "v5" in m:
        return 5
    if "v7" in m:
        return 7
    if "v9" in m:
        return 9
    if "ipfix" in m:
        return 10
    return int(m["raw"]["b"][:4], 16)


def alias_versions(rng):
    """numbers that are NOT decoder versions but coincide with one under a mask, a shift, a byte swap or a narrowing cast
    (v + 2^j, v * 256, v | 0x8000, 65536 - v …): an allowed set containing them must still allow only themselves"""
    out = []
    for v in (5, 7, 9, 10):
        out += [v + (1 << j) for j in range(3, 16)] + [v * 256, v * 257, 65536 - v, v ^ 0xFFFF, v + 100, v * 10]
        for L in LITERALS:
            if 6 <= L < 65536:
                out += [v + L, v + 2 * L, v + 3 * L, abs(L - v), v * L]      # aliases modulo / around a constant of the source
    return sorted(set(x for x in out if 0 <= x < 65536 and x not in (5, 7, 9, 10)))


ALIASES = None


def extra_versions(rng, p=0.3):
    global ALIASES
    if ALIASES is None:
        ALIASES = alias_versions(rng)
    ex = [v for v in (0, 6, 11, 77, 65535) if rng.random() < p]
    if rng.random() < 0.5:
        ex += rng.sample(ALIASES, rng.choice([1, 2, 4, 8]))
    if rng.random() < 0.1:
        ex += ALIASES                      # all of them at once
    return ex


def fam_filter(rng, n):
    """C12: allowed set S (p0) against every-version-allowed (p1) on the same buffer and history, and
    an every-version-allowed parser fed only the allowed prefix (p2)"""
    out = []
    for _ in range(n):
        ex = Exporter(rng)
        hist = rand_packets(rng, ex, rng.randrange(0, 3), versions=(9, 10))
        k = rng.randrange(1, 6)
        msgs = []
        for _ in range(k):
            if rng.random() < 0.25:
                msgs.append(raw_version_msg(rng, rng.choice([0, 1, 4, 6, 8, 11, 77, 65535])))
            else:
                msgs.extend(rand_packets(rng, ex, 1))
        S = [v for v in (5, 7, 9, 10) if rng.random() < 0.6] + extra_versions(rng, 0.3)
        prefix = []
        ends_in_error = False
        for m in msgs:
            if msg_version(m) not in S:
                break
            prefix.append(m)
            if "raw" in m:
                ends_in_error = True   # an unknown (allowed) version ends the result with an error carrying the rest
                break
        ops = []
        for pid in (0, 1, 2):
            ops.append(op_new(pid, allowed="all"))
            if hist:
                ops.append(op_parse(pid, msgs=hist, want=[]))
        ops.append({"op": "allowed", "p": 0, "set": S})
        ops.append(op_parse(0, msgs=msgs, want=[]))
        ops.append(op_parse(1, msgs=msgs, want=[]))
        if prefix:
            ops.append(op_parse(2, msgs=prefix, want=[]))
        else:
            ops.append(op_parse(2, hexs="", want=[]))
        a = {"op": "assert_filter", "a": 0, "b": 1}
        # the prefix parser sees the history too, so compare only the LAST call's packets: done in the driver via `c`
        if not ends_in_error:
            a["c"] = 2
        ops.append(a)
        out.append(("filter", ops))
    return out


def fam_filter_sweep(rng):
    """C12, swept instead of sampled: EVERY subset of {5,7,9,10} (16), with and without an allowed decoder-less version, against
    buffers that start with / contain a packet of that decoder-less version, a one-byte buffer, an empty buffer and a real packet
    of every version — so the sets {}, {12}, {5,12}, … and the unknown-version error for an allowed number are always exercised"""
    out = []
    ex = Exporter(rng, lossless=True, simple_ipfix=True)
    real = {5: msg_v5(rng, 1), 7: msg_v7(rng, 1), 9: ex.v9_msg(nsets=1), 10: ex.ip_msg(nsets=1)}
    for mask in range(16):
        base = [v for j, v in enumerate((5, 7, 9, 10)) if mask >> j & 1]
        for extra in ([], [12], [3, 12], [0], [65535]):
            S = base + extra
            u = (extra or [12])[0]
            bufs = [[raw_version_msg(rng, u)], [real[rng.choice([5, 7, 9, 10])], raw_version_msg(rng, u)], [raw_version_msg(rng, u), real[5]],
                    [real[5], real[7], real[9], real[10]], [real[10], real[9]]]
            ops = []
            for pid in (0, 1):
                ops.append(op_new(pid, allowed="all"))
            ops.append({"op": "allowed", "p": 0, "set": S})
            for msgs in bufs:
                ops.append(op_parse(0, msgs=msgs, want=[]))
                ops.append(op_parse(1, msgs=msgs, want=[]))
                ops.append({"op": "assert_filter", "a": 0, "b": 1})
            for hexs in ("00", "", "000c"):
                o = op_parse(0, hexs=hexs, want=[]); ops.append(o)
                o = op_parse(1, hexs=hexs, want=[]); ops.append(o)
                ops.append({"op": "assert_filter", "a": 0, "b": 1})
            out.append(("filter-sweep", ops))
    return out


def fam_allowed_mix(rng, n):
    """non-default allowed sets (subsets of 5,7,9,10 plus versions that have no decoder), buffers mixing real packets
    and version words without a decoder at packet boundaries"""
    out = []
    for _ in range(n):
        ex = Exporter(rng, lossless=True, simple_ipfix=True)
        S = [v for v in (5, 7, 9, 10) if rng.random() < 0.7] + extra_versions(rng, 0.4) + [v for v in (1, 8) if rng.random() < 0.4]
        ops = [op_new(0, allowed=S)]
        for call in range(rng.choice([1, 1, 2, 3, 4])):
            if call > 0 and rng.random() < 0.7:
                # the caller changes the public allowed set between calls (widen, narrow, replace, empty)
                swapped = list(S)
                if swapped:
                    # same SIZE, different content: one member replaced by a version that is not in the set
                    out_v = [v for v in (5, 7, 9, 10, 11, 6) if v not in swapped]
                    if out_v:
                        swapped[rng.randrange(len(swapped))] = rng.choice(out_v)
                S = rng.choice([[5, 7, 9, 10], [v for v in (5, 7, 9, 10) if rng.random() < 0.5], S + [rng.choice([5, 7, 9, 10])], [], [rng.choice([5, 7, 9, 10])], swapped, swapped]) + (extra_versions(rng, 0.2) if rng.random() < 0.5 else [])
                ops.append({"op": "allowed", "p": 0, "set": S})
            msgs = []
            for _ in range(rng.randrange(0 if call > 0 else 1, 5)):
                if rng.random() < 0.35:
                    msgs.append(raw_version_msg(rng, rng.choice([0, 1, 6, 8, 11, 77, 65535])))
                else:
                    msgs.extend(rand_packets(rng, ex, 1))
            o = op_parse(0, msgs=msgs) if msgs else op_parse(0, hexs="")
            o["nospec"] = True
            ops.append(o)
        out.append(("allowed-mix", ops))
    return out


def fam_allowed_swap(rng, n=40):
    """C12 / C02 / C03: the caller EDITS `allowed_versions` between calls on one parser without changing its SIZE (one member replaced
    by a non-member, remove + insert, a reassignment of equal length), after at least one call under the old set; then buffers that
    start with a packet of the version that was added, and of the version that was removed.  p0 is the edited parser, p1 an
    every-version-allowed twin fed the same calls, p2 an every-version-allowed parser fed only the allowed prefix of the last buffer."""
    out = []
    real = [5, 7, 9, 10]
    cases = []
    for a in real:                      # `a` leaves the set, `b` enters; the rest stays
        for b in real:
            if a != b:
                for rest in ([], [x for x in real if x not in (a, b)][:1], [x for x in real if x not in (a, b)]):
                    cases.append((a, b, rest))
    for a in real:                      # a decoder-less version replaces / is replaced by a real one
        cases.append((a, 11, []))
        cases.append((11, a, []))
    rng.shuffle(cases)
    for (a, b, rest) in cases[:n]:
        def pkt(v):
            if v in real:
                # a FRESH exporter per packet: the packet carries the templates its data needs, so it decodes wherever it is accepted
                return rand_packets(rng, Exporter(rng, lossless=True, simple_ipfix=True), 1, versions=(v,))[0]
            return raw_version_msg(rng, v)
        S_old = [a] + rest + extra_versions(rng, 0.15)
        S_new = [b] + rest + [v for v in S_old if v not in real and v != a]
        if len(set(S_new)) != len(set(S_old)):
            S_new = [b] + rest
            S_old = [a] + rest
        first = [pkt(a)] + ([pkt(b)] if rng.random() < 0.5 else [])
        for order in ((b, a), (a, b), (b,)):
            last = [pkt(v) for v in order]
            prefix = []
            ends_in_error = False
            for m in last:
                if msg_version(m) not in S_new:
                    break
                prefix.append(m)
                if "raw" in m:
                    ends_in_error = True
                    break
            ops = [op_new(0, allowed=S_old), op_new(1, allowed="all"), op_new(2, allowed="all")]
            # the twins see exactly what p0 ACCEPTS of the first buffer (its prefix allowed under the old set), so that all three hold
            # the same caches when the last buffer arrives
            for pid, ms in ((0, first), (1, first[:1]), (2, first[:1])):
                o = op_parse(pid, msgs=ms, want=[]); o["nospec"] = True; ops.append(o)
            ops.append({"op": "allowed", "p": 0, "set": S_new})
            for pid in (0, 1):
                o = op_parse(pid, msgs=last, want=[]); o["nospec"] = True; ops.append(o)
            o = op_parse(2, msgs=prefix, want=[]) if prefix else op_parse(2, hexs="", want=[])
            o["nospec"] = True; ops.append(o)
            asrt = {"op": "assert_filter", "a": 0, "b": 1}
            if not ends_in_error:
                asrt["c"] = 2
            ops.append(asrt)
            out.append(("allowed-swap", ops))
    return out


def fam_trunc(rng, n, fracs=None):
    """C14: history, then  pre ++ (last packet cut strictly inside)  on p0 and  pre  alone on p1"""
    out = []
    for _ in range(n):
        ex = Exporter(rng)
        hist = rand_packets(rng, ex, rng.randrange(0, 3), versions=(9, 10))
        pre = rand_packets(rng, ex, rng.randrange(0, 3))
        v = rng.choice([5, 7, 9, 10])
        if v in (5, 7):
            # mostly small packets; a fifth of them with a record count around the documented per-datagram maximum (30) and
            # around the next byte / size boundaries, cut near the END (where a clamped or capped count would already be satisfied)
            nrec = rng.randrange(0, 4) if rng.random() < 0.8 else rng.choice([29, 30, 31, 32, 33, 40, 63, 64, 65, 255, 256, 257])
            last = (msg_v5 if v == 5 else msg_v7)(rng, nrec)
        else:
            last = rand_packets(rng, ex, 1, versions=(v,))[0]
        for frac in (fracs or [rng.randrange(0, 1001) if rng.random() < 0.7 else rng.choice([900, 950, 980, 990, 999, 1000])]):
            ops = []
            for pid in (0, 1):
                ops.append(op_new(pid))
                if hist:
                    ops.append(op_parse(pid, msgs=hist, want=[]))
            o = op_parse(0, msgs=pre + [last], want=[])
            o["cutfrac"] = frac
            if v in (5, 7) and rng.random() < 0.5:
                # exactly on a record boundary (24 + 48*j / 24 + 52*j) or a byte either side of it
                o["cutbound"] = rng.randrange(0, 8)
                o["cutdelta"] = rng.choice([0, 0, 0, 1, 47])
            if v == 9 and rng.random() < 0.5:
                # just past a flowset boundary: inside the next flowset's 4-byte header
                o["cutbound"] = rng.randrange(0, 8)
                o["cutdelta"] = rng.choice([1, 2, 3, 1, 2, 3, 4, 5])
            ops.append(o)
            ops.append(op_parse(1, msgs=pre, want=[]) if pre else op_parse(1, hexs="", want=[]))
            ops.append({"op": "assert_trunc", "a": 0, "b": 1, "cutlen": "last", "keep_state": v != 9})
            out.append(("trunc-v%d" % v, ops))
    return out


def fam_trunc_wide(rng):
    """C14: V5 / V7 packets whose announced record block is longer than 65535 bytes (count * record size leaves 16 bits), cut one byte
    short, one record short, and just above 65535 body bytes — alone and after another packet"""
    out = []
    for v, cnt, bound in ((5, 1367, 1366), (7, 1262, 1261), (5, 1366, 1365), (7, 1261, 1260)):
        last = (msg_v5 if v == 5 else msg_v7)(rng, cnt)
        for pre in ([], [msg_v5(rng, 1)]):
            for cut in ({"cutfrac": 1000}, {"cutfrac": 500, "cutbound": bound, "cutdelta": 0}, {"cutfrac": 500, "cutbound": bound, "cutdelta": 1}):
                ops = [op_new(0), op_new(1)]
                o = op_parse(0, msgs=pre + [last], want=[])
                o.update(cut)
                ops.append(o)
                ops.append(op_parse(1, msgs=pre, want=[]) if pre else op_parse(1, hexs="", want=[]))
                ops.append({"op": "assert_trunc", "a": 0, "b": 1, "cutlen": "last", "keep_state": True})
                out.append(("trunc-wide-v%d" % v, ops))
    return out


def fam_setorder(rng, n, protos=(9, 10), exhaustive=False, want=WANT_ALL):
    """bounded-exhaustive ORDER of sets inside ONE packet: every sequence of at most 3 sets over {template A 256, template B 256, options
    template 256, data sized for A, data sized for the options template, template 257, data 257}, after each of three pre-histories
    (nothing / template A cached / options template cached), followed by two probe data packets.  Data ahead of its own template, two
    meanings of one id in one packet, a template between two data sets, … are all in it."""
    import itertools
    A = [{"typ": 1, "len": 4}, {"typ": 7, "len": 2}]
    B = [{"typ": 8, "len": 4}, {"typ": 4, "len": 1}, {"typ": 5, "len": 1}]
    S7 = [{"typ": 2, "len": 4}]
    recA = [["0000ffff", "0050"], ["01020304", "ffff"]]
    recO = [["00000001", "0005"]]
    rec7 = [["00000007"], ["ffffffff"]]
    out = []
    for proto in protos:
        if proto == 9:
            def pk(sets, k=1):
                return {"v9": {"m": {"count": len(sets), "sysUpTime": k, "unixSecs": k, "seq": k, "sourceId": 1, "sets": sets}}}
            sets = {"Ta": {"templates": {"ts": [{"id": 256, "fieldCount": 2, "fields": A}], "pad": ""}},
                    "Tb": {"templates": {"ts": [{"id": 256, "fieldCount": 3, "fields": B}], "pad": ""}},
                    "Oa": {"optTemplates": {"ts": [{"id": 256, "scopeLen": 4, "optLen": 4, "scope": [{"typ": 1, "len": 4}], "opts": [{"typ": 1, "len": 2}]}], "pad": ""}},
                    "T7": {"templates": {"ts": [{"id": 257, "fieldCount": 1, "fields": S7}], "pad": ""}},
                    "Da": {"data": {"id": 256, "recs": recA, "pad": ""}}, "Do": {"data": {"id": 256, "recs": recO, "pad": ""}},
                    "D7": {"data": {"id": 257, "recs": rec7, "pad": ""}}}
        else:
            def pk(sets, k=1):
                return {"ipfix": {"m": {"exportTime": k, "seq": k, "odid": 1, "sets": sets}}}
            f = lambda fs: [dict(x, ent=None) for x in fs]
            r = lambda recs: [[{"content": c, "form": "fixed"} for c in rec] for rec in recs]
            sets = {"Ta": {"templates": {"ts": [{"id": 256, "fields": f(A)}], "pad": ""}},
                    "Tb": {"templates": {"ts": [{"id": 256, "fields": f(B)}], "pad": ""}},
                    "Oa": {"optTemplates": {"ts": [{"id": 256, "scopeCount": 1, "fields": f([{"typ": 1, "len": 4}, {"typ": 2, "len": 2}])}], "pad": ""}},
                    "T7": {"templates": {"ts": [{"id": 257, "fields": f(S7)}], "pad": ""}},
                    "Da": {"data": {"id": 256, "recs": r(recA), "pad": ""}}, "Do": {"data": {"id": 256, "recs": r(recO), "pad": ""}},
                    "D7": {"data": {"id": 257, "recs": r(rec7), "pad": ""}}}
        letters = sorted(sets)
        seqs = [(pre, s_) for pre in (None, "Ta", "Oa") for L in (2, 3) for s_ in itertools.product(letters, repeat=L)]
        if not exhaustive and len(seqs) > n:
            seqs = rng.sample(seqs, n)
        for pre, seq in seqs:
            ops = [op_new(0)]
            msgs = ([pk([sets[pre]])] if pre else []) + [pk([sets[x] for x in seq], 2), pk([sets["Da"]], 3), pk([sets["Do"]], 3)]
            # C07: the first data set of the packet whose id nothing has defined yet (neither the pre-history nor an earlier set of the
            # same packet) is data for an UNKNOWN template: no record may be reported for that id by this call
            known = {"256"} if pre else set()
            unknown = None
            for x in seq:
                tid = "257" if x.endswith("7") else "256"
                if x[0] in "TO":
                    known.add(tid)
                elif tid not in known:
                    unknown = int(tid)
                    break
            for j, m in enumerate(msgs):
                o = op_parse(0, msgs=[m], want=list(want)); o["nospec"] = True
                if unknown is not None and j == (1 if pre else 0):
                    o["unknown_id"] = unknown
                    o["unknown_proto"] = proto
                ops.append(o)
            out.append(("setorder-%d" % proto, ops))
    return out


def fam_trunc_history(rng, n):
    """C14 over a HISTORY: an earlier call on the same parser ended in a cut packet that announced a large size (a partial packet a
    resumable parser might keep); the next call holds complete packets followed by another cut packet, shorter than that size"""
    out = []
    for _ in range(n):
        ex = Exporter(rng, lossless=True, simple_ipfix=True)
        big = rng.choice(["v5", "v7", "ipfix"])
        if big == "v5":
            first = msg_v5(rng, rng.choice([20, 30, 60]))
        elif big == "v7":
            first = msg_v7(rng, rng.choice([20, 30, 60]))
        else:
            first = {"raw": {"b": hx((10).to_bytes(2, "big") + rng.choice([1000, 4000, 65535]).to_bytes(2, "big") + rbytes(rng, 12) + rbytes(rng, 24))}}
        pre = rand_packets(rng, ex, rng.choice([1, 1, 2, 3]))
        v = rng.choice([5, 7, 10])
        last = msg_v5(rng, rng.randrange(1, 4)) if v == 5 else (msg_v7(rng, rng.randrange(1, 4)) if v == 7 else rand_packets(rng, ex, 1, versions=(10,))[0])
        ops = [op_new(0), op_new(1)]
        for pid in (0, 1):
            o = op_parse(pid, msgs=[first], want=[])
            if "raw" not in first:
                o["cutfrac"] = rng.choice([100, 200, 400])
            ops.append(o)
        if rng.random() < 0.5:
            for pid in (0, 1):
                ops.append(op_parse(pid, msgs=[msg_v5(rng, 1)], want=[]))        # a complete packet in between
        o = op_parse(0, msgs=pre + [last], want=[])
        o["cutfrac"] = rng.randrange(50, 1000)
        ops.append(o)
        ops.append(op_parse(1, msgs=pre, want=[]))
        ops.append({"op": "assert_trunc", "a": 0, "b": 1, "cutlen": "last", "keep_state": True})
        out.append(("trunc-history", ops))
    return out


def fam_budget(rng, tier="quick"):
    """a per-call / per-message BUDGET of decoded values, fields or records, if the code has one, is met exactly: for every integer
    literal L of the source in 500..70000 (65535, 1024, 4096 … — harvested on this run, so a limit introduced by an edit is among them)
    an IPFIX and a V9 message whose FIRST data set decodes just under L values (templates with zero-length fields: many values per
    byte) followed by a second and third data set in the same message, after the template was cached by an earlier call"""
    out = []
    lits = sorted(set(v for v in LITERALS if 500 <= v <= 70000) | {1024, 4096, 65535})
    if tier == "quick":
        lits = [v for v in lits if v in (1023, 1024, 1025, 4096, 65534, 65535)] + [v for v in lits if v not in (1023, 1024, 1025, 4096, 65534, 65535)][:4]
    for L in lits:
        for f in (64, 63, 5):
            n1 = (L - 1) // f
            if n1 == 0 or n1 > 20000:
                continue
            ipf = [{"typ": 82, "len": 0, "ent": None}] * (f - 1) + [{"typ": 4, "len": 1, "ent": None}]
            tm = {"ipfix": {"m": {"exportTime": 1, "seq": 1, "odid": 1, "sets": [{"templates": {"ts": [{"id": 256, "fields": ipf}], "pad": ""}}]}}}
            rec = [{"content": "", "form": "fixed"}] * (f - 1) + [{"content": "07", "form": "fixed"}]
            dm = {"ipfix": {"m": {"exportTime": 2, "seq": 2, "odid": 1, "sets": [{"data": {"id": 256, "recs": [rec] * n1, "pad": ""}},
                                                                                  {"data": {"id": 256, "recs": [rec] * 2, "pad": ""}},
                                                                                  {"data": {"id": 256, "recs": [rec] * (f + 1), "pad": ""}}]}}}
            ops = [op_new(0)]
            for m, w in ((tm, []), (dm, ["export", "common"])):
                o = op_parse(0, msgs=[m], want=w); o["nospec"] = True; ops.append(o)
            out.append(("budget-ipfix-%d" % L, ops))
            v9f = [{"typ": 94, "len": 0}] * (f - 1) + [{"typ": 4, "len": 1}]
            t9 = {"v9": {"m": {"count": 1, "sysUpTime": 1, "unixSecs": 1, "seq": 1, "sourceId": 1, "sets": [{"templates": {"ts": [{"id": 256, "fieldCount": f, "fields": v9f}], "pad": ""}}]}}}
            r9 = [""] * (f - 1) + ["07"]
            d9 = {"v9": {"m": {"count": 3, "sysUpTime": 2, "unixSecs": 2, "seq": 2, "sourceId": 1, "sets": [{"data": {"id": 256, "recs": [r9] * n1, "pad": ""}},
                                                                                                      {"data": {"id": 256, "recs": [r9] * 2, "pad": ""}},
                                                                                                      {"data": {"id": 256, "recs": [r9] * (f + 1), "pad": ""}}]}}}
            ops = [op_new(0)]
            for m, w in ((t9, []), (d9, ["export", "common"])):
                o = op_parse(0, msgs=[m], want=w); o["nospec"] = True; ops.append(o)
            out.append(("budget-v9-%d" % L, ops))
    return out


def fam_retry(rng, tier="quick"):
    """C15 / C01: a V9 data flowset whose FIRST record cannot be decoded (a protocol byte 146..254, a counter of an undecodable width)
    under templates of k fields — all one byte, or k-1 zero-length fields in front of the failing one — and bodies of n bytes: the
    record loop runs |body| / record-size iterations, none of which yields a record; the cost of the call must not be iterations x k.
    Also the same shapes with a decodable value (control) and the failing field in the middle."""
    out = []
    ks = (40, 600, 4000) if tier == "quick" else (10, 40, 200, 600, 2000, 4000, 12000)
    ns = (200, 1400) if tier == "quick" else (50, 200, 1400, 9000)
    for k in ks:
        for n in ns:
            for shape in ("zero-then-proto", "ones-then-proto", "zero-then-width5", "proto-in-the-middle", "control"):
                if shape == "zero-then-proto":
                    fs = [{"typ": 94, "len": 0}] * (k - 1) + [{"typ": 4, "len": 1}]; body = bytes([200]) * n
                elif shape == "ones-then-proto":
                    fs = [{"typ": 5, "len": 1}] * (k - 1) + [{"typ": 4, "len": 1}]; body = bytes([200]) * n
                elif shape == "zero-then-width5":
                    fs = [{"typ": 94, "len": 0}] * (k - 1) + [{"typ": 1, "len": 5}]; body = bytes([1]) * n
                elif shape == "proto-in-the-middle":
                    fs = [{"typ": 94, "len": 0}] * (k // 2) + [{"typ": 4, "len": 1}] + [{"typ": 94, "len": 0}] * (k - 1 - k // 2); body = bytes([250]) * n
                else:
                    fs = [{"typ": 94, "len": 0}] * (k - 1) + [{"typ": 4, "len": 1}]; body = bytes([6]) * min(n, 200, max(4, 8000 // k))
                t9 = {"v9": {"m": {"count": 1, "sysUpTime": 1, "unixSecs": 1, "seq": 1, "sourceId": 1, "sets": [{"templates": {"ts": [{"id": 256, "fieldCount": k, "fields": fs}], "pad": ""}}]}}}
                dm = {"raw": {"b": hx(b"\x00\x09\x00\x01" + bytes(16) + (256).to_bytes(2, "big") + (len(body) + 4).to_bytes(2, "big") + body)}}
                ops = [op_new(0)]
                for m, w in ((t9, []), (dm, ["export", "common"])):
                    o = op_parse(0, msgs=[m], want=w); o["nospec"] = True; ops.append(o)
                out.append(("retry-v9-%s-%d" % (shape, k), ops))
    return out


def fam_bigtemplate_small_sets(rng, tier="quick"):
    """C15 / C01: a LARGE cached template (k fields, every one of non-zero length) and then ONE packet packed with many data flowsets /
    sets for it that are too short to hold a single record (bodies of 0..3 bytes): the cost of the call must be paid by the buffer or by
    the result, not by (number of sets) x (size of the cached template).  V9 data and options data, IPFIX data (where the first
    undecodable set ends the message, so the message count is what repeats)."""
    out = []
    shapes = ((1000, 1000), (4000, 3000)) if tier == "quick" else ((250, 500), (1000, 1000), (4000, 3000), (16000, 13000))
    for k, ns in shapes:
        for kind in ("data", "optdata"):
            for blen in (1, 0, 3):
                if kind == "data":
                    t = {"templates": {"ts": [{"id": 256, "fieldCount": k, "fields": [{"typ": 1, "len": 4}] * k}], "pad": ""}}
                else:
                    t = {"optTemplates": {"ts": [{"id": 256, "scopeLen": 4, "optLen": 4 * (k - 1), "scope": [{"typ": 1, "len": 4}], "opts": [{"typ": 1, "len": 4}] * (k - 1)}], "pad": ""}}
                tm = {"v9": {"m": {"count": 1, "sysUpTime": 1, "unixSecs": 1, "seq": 1, "sourceId": 1, "sets": [t]}}}
                n = min(ns, (65000 - 20) // (4 + blen))
                dm = {"raw": {"b": hx(b"\x00\x09" + n.to_bytes(2, "big") + bytes(16) + ((256).to_bytes(2, "big") + (4 + blen).to_bytes(2, "big") + bytes([7] * blen)) * n)}}
                ops = [op_new(0)]
                for m, w in ((tm, []), (dm, ["export", "common"])):
                    o = op_parse(0, msgs=[m], want=w); o["nospec"] = True; ops.append(o)
                out.append(("bigtemplate-v9-%s-%d" % (kind, k), ops))
        # IPFIX: one message packed with data sets of 0..3 body bytes for a cached k-field (options) template; today the first such set
        # ends the message (one clone); a set loop that goes on must not clone the template once per set
        for kind in ("data", "optdata"):
            for blen in (0, 1, 3):
                fields = [{"typ": 1, "len": 4, "ent": None}] * k
                if kind == "data":
                    t = {"templates": {"ts": [{"id": 256, "fields": fields}], "pad": ""}}
                else:
                    t = {"optTemplates": {"ts": [{"id": 256, "scopeCount": 1, "fields": fields}], "pad": ""}}
                tm = {"ipfix": {"m": {"exportTime": 1, "seq": 1, "odid": 1, "sets": [t]}}}
                n = min(ns, (65000 - 16) // (4 + blen))
                sets = ((256).to_bytes(2, "big") + (4 + blen).to_bytes(2, "big") + bytes([7] * blen)) * n
                dm = {"raw": {"b": hx(b"\x00\x0a" + (16 + len(sets)).to_bytes(2, "big") + bytes(12) + sets)}}
                ops = [op_new(0)]
                for m, w in ((tm, []), (dm, ["export", "common"])):
                    o = op_parse(0, msgs=[m], want=w); o["nospec"] = True; ops.append(o)
                out.append(("bigtemplate-ipfix-%s-%d" % (kind, k), ops))
    return out


def fam_forget(rng, n):
    """C07 / C06: the CALLER removes a template id from the public cache maps (template expiry: `parser.v9_parser.templates.remove(&id)`,
    op `forget`) after data for it was decoded; the id is then absent from the cache, so data for it must NOT be decoded (V9: error,
    IPFIX: set omitted), the caches stay as the caller left them, and after the template is received again the same bytes decode."""
    out = []
    for _ in range(n):
        proto = rng.choice([9, 10])
        tid = rng.choice([256, 257, 300, 999])
        kind = rng.choice(["tpl", "tpl", "opt"])
        if proto == 9:
            if kind == "tpl":
                t = v9_template(rng, tid, lossless=True)
                tset = {"templates": {"ts": [t], "pad": ""}}
                dset = {"data": {"id": tid, "recs": [v9_record(rng, t) for _ in range(rng.randrange(1, 4))], "pad": ""}}
            else:
                tset = {"optTemplates": {"ts": [{"id": tid, "scopeLen": 4, "optLen": 4, "scope": [{"typ": 1, "len": 4}], "opts": [{"typ": 1, "len": 4}]}], "pad": ""}}
                dset = {"raw": None}
            def pk(sets, k):
                return {"v9": {"m": {"count": len(sets), "sysUpTime": k, "unixSecs": k, "seq": k, "sourceId": 1, "sets": sets}}}
            if kind == "opt":
                body = bytes(rng.randrange(256) for _ in range(8))
                def datamsg(k):
                    return {"raw": {"b": hx(b"\x00\x09\x00\x01" + bytes(16) + tid.to_bytes(2, "big") + (12).to_bytes(2, "big") + body)}}
            else:
                def datamsg(k):
                    return pk([dset], k)
        else:
            t = ip_template(rng, tid, lossless=True, varlen=False, enterprise=False)
            if kind == "opt":
                t["scopeCount"] = 1
                tset = {"optTemplates": {"ts": [t], "pad": ""}}
            else:
                tset = {"templates": {"ts": [t], "pad": ""}}
            dset = {"data": {"id": tid, "recs": [ip_record(rng, t["fields"]) for _ in range(rng.randrange(1, 4))], "pad": ""}}
            def pk(sets, k):
                return {"ipfix": {"m": {"exportTime": k, "seq": k, "odid": 1, "sets": sets}}}
            def datamsg(k):
                return pk([dset], k)
        want = ["export", "common", "json"]
        ops = [op_new(0)]
        def add(m, w=want):
            o = op_parse(0, msgs=[m], want=list(w)); o["nospec"] = True; ops.append(o)
        first_set, first_data = tset, datamsg
        if kind == "tpl" and rng.random() < 0.35:
            # the definition the caller later expires has one more field, of a type the library has NO decoder for (V9 40000 / IPFIX
            # 600): with `parse_unknown_fields` off its records do not decode; what comes back on the wire afterwards is known-only
            import copy
            tu = copy.deepcopy(t)
            if proto == 9:
                tu["fields"] = tu["fields"] + [{"typ": 40000, "len": 4}]
                tu["fieldCount"] = len(tu["fields"])
                first_set = {"templates": {"ts": [tu], "pad": ""}}
                du = {"data": {"id": tid, "recs": [v9_record(rng, t) + ["00000001"] for _ in range(rng.randrange(1, 3))], "pad": ""}}
            else:
                tu["fields"] = tu["fields"] + [{"typ": 600, "len": 4, "ent": None}]
                first_set = {"templates": {"ts": [tu], "pad": ""}}
                du = {"data": {"id": tid, "recs": [ip_record(rng, t["fields"]) + [{"content": "00000001", "form": "fixed"}] for _ in range(rng.randrange(1, 3))], "pad": ""}}
            first_data = lambda k: pk([du], k)
        add(pk([first_set], 1), [])
        for k in range(rng.randrange(1, 3)):
            add(first_data(2 + k))                    # decoded: whatever the code derives lazily from the template is now built
        ops.append({"op": "forget", "p": 0, "proto": proto, "id": tid})
        if rng.random() < 0.5:
            add(msg_v5(rng, 1), [])     # unrelated traffic in between
        if rng.random() < 0.5:
            # a TRUNCATED template message of the same protocol right after the caller's edit: reported as an error, and the caches
            # stay exactly as the caller left them (the correspondence compares the caches after every call)
            add(pk([tset], 5), [])
            ops[-1]["cutfrac"] = rng.choice([300, 500, 700, 900, 990])
        add(datamsg(6))                               # the id is absent from the cache: no records
        ops[-1]["unknown_id"] = tid; ops[-1]["unknown_proto"] = proto
        if rng.random() < 0.7:
            add(pk([tset], 7), [])                    # received again
            add(datamsg(8))                           # decodes again
        out.append(("forget-%d-%s" % (proto, kind), ops))
    return out


def fam_adopt(rng, n):
    """the CALLER replaces the public cache maps of a parser by those of another parser (one parser value serving several exporters, a
    restored snapshot; op `adopt`): p0 and p1 learn DIFFERENT definitions of one id (other record size, other fields, other kind), p0
    decodes data under its own, adopts p1's maps, and then receives data laid out for p1's definition — it must decode exactly as p1
    decodes the same bytes; then p0's own definition arrives again on the wire and its data decodes again."""
    out = []
    for _ in range(n):
        proto = rng.choice([9, 10])
        tid = rng.choice([256, 257, 300])
        if proto == 9:
            ta, tb = v9_template(rng, tid, lossless=True), v9_template(rng, tid, lossless=True)
            def tmsg(t, k):
                return {"v9": {"m": {"count": 1, "sysUpTime": k, "unixSecs": k, "seq": k, "sourceId": 1, "sets": [{"templates": {"ts": [t], "pad": ""}}]}}}
            def dmsg(t, k, nrec):
                return {"v9": {"m": {"count": 1, "sysUpTime": k, "unixSecs": k, "seq": k, "sourceId": 1, "sets": [{"data": {"id": tid, "recs": [v9_record(rng, t) for _ in range(nrec)], "pad": ""}}]}}}
        else:
            ta = ip_template(rng, tid, lossless=True, varlen=False, enterprise=False)
            tb = ip_template(rng, tid, lossless=True, varlen=False, enterprise=False)
            def tmsg(t, k):
                return {"ipfix": {"m": {"exportTime": k, "seq": k, "odid": 1, "sets": [{"templates": {"ts": [t], "pad": ""}}]}}}
            def dmsg(t, k, nrec):
                return {"ipfix": {"m": {"exportTime": k, "seq": k, "odid": 1, "sets": [{"data": {"id": tid, "recs": [ip_record(rng, t["fields"]) for _ in range(nrec)], "pad": ""}}]}}}
        want = ["export", "common", "json"]
        ops = [op_new(0), op_new(1)]
        def add(pid, m, w=want):
            o = op_parse(pid, msgs=[m], want=list(w)); o["nospec"] = True; ops.append(o)
        add(0, tmsg(ta, 1), []); add(1, tmsg(tb, 1), [])
        add(0, dmsg(ta, 2, rng.randrange(1, 4)))
        ops.append({"op": "adopt", "p": 0, "from": 1, "proto": proto})
        db = dmsg(tb, 3, rng.randrange(2, 6))
        add(0, db); add(1, db)
        ops.append({"op": "assert_same", "a": 0, "b": 1, "pkts_only": True, "last_only": True})
        if rng.random() < 0.6:
            add(0, tmsg(ta, 4), []); add(0, dmsg(ta, 5, rng.randrange(2, 5)))
        out.append(("adopt-%d" % proto, ops))
    return out


def fam_fixed_alias_versions(rng, n=60):
    """C08 / C03 / C02: a byte-exact V5 or V7 LAYOUT (24-byte header, `count` records of 48 / 52 bytes) under ANOTHER version word
    (1, 4, 6, 8, 11, 12 …) that the caller has put into `allowed_versions`: there is no decoder for it, so the result is the
    unknown-version error; should a decoder be attached to such a number, what it returns must still re-export to the bytes it occupied."""
    out = []
    for _ in range(n):
        w = rng.choice([1, 4, 6, 6, 8, 11, 12, 0, 15, 16])
        like = rng.choice([5, 7])
        cnt = rng.choice([0, 1, 2, 3, 30])
        rec = 48 if like == 5 else 52
        body = bytes(rng.randrange(256) for _ in range(20 + rec * cnt))
        raw = w.to_bytes(2, "big") + cnt.to_bytes(2, "big") + body
        tail = [msg_v5(rng, 1)] if rng.random() < 0.4 else []
        ops = [op_new(0, allowed=[5, 7, 9, 10, w] if rng.random() < 0.7 else [w, like])]
        o = op_parse(0, msgs=[{"raw": {"b": hx(raw)}}] + tail, want=["export", "common", "json"]); o["nospec"] = True
        ops.append(o)
        out.append(("fixed-alias-version", ops))
    return out


def fam_isolation(rng, n):
    """C06: two parser instances fed interleaved histories with colliding template ids behave like
    two parsers fed their histories alone; fixed-format packets / disallowed versions never touch the caches"""
    out = []
    for _ in range(n):
        exa, exb = Exporter(rng, lossless=True, simple_ipfix=True), Exporter(rng, lossless=True, simple_ipfix=True)
        ca = [rand_packets(rng, exa, rng.randrange(1, 3)) for _ in range(rng.randrange(2, 5))]
        cb = [rand_packets(rng, exb, rng.randrange(1, 3)) for _ in range(rng.randrange(2, 5))]
        ops = [op_new(0), op_new(1), op_new(2), op_new(3)]
        ia = ib = 0
        while ia < len(ca) or ib < len(cb):
            if ib >= len(cb) or (ia < len(ca) and rng.random() < 0.5):
                ops.append(op_parse(0, msgs=ca[ia], want=[]))
                ia += 1
            else:
                ops.append(op_parse(1, msgs=cb[ib], want=[]))
                ib += 1
        for c in ca:
            ops.append(op_parse(2, msgs=c, want=[]))
        for c in cb:
            ops.append(op_parse(3, msgs=c, want=[]))
        ops.append({"op": "assert_same", "a": 0, "b": 2, "key": "C06"})
        ops.append({"op": "assert_same", "a": 1, "b": 3, "key": "C06"})
        # frame conditions on p0: V5/V7 packets, a disallowed version, garbage
        ops.append(op_parse(0, msgs=[msg_v5(rng, 2), msg_v7(rng, 1)], want=[]))
        ops.append({"op": "assert_unchanged", "a": 0, "key": "C06"})
        ops.append({"op": "allowed", "p": 0, "set": [5, 7]})
        ops.append(op_parse(0, msgs=rand_packets(rng, Exporter(rng, lossless=True, simple_ipfix=True), 2, versions=(9, 10)), want=[]))
        ops.append({"op": "assert_unchanged", "a": 0, "key": "C06"})
        out.append(("isolation", ops))
    return out


def fam_redefine(rng, n, lossless=False):
    """C06: redefinitions of one id with different field lists (same kind and across kinds),
    data sets before and after, under splits into calls"""
    out = []
    for _ in range(n):
        ex = Exporter(rng, lossless=lossless, simple_ipfix=lossless)
        ex.new_id = lambda: rng.choice([256, 257])      # force collisions
        ops = [op_new(0)]
        for _ in range(rng.randrange(3, 8)):
            ops.append(op_parse(0, msgs=rand_packets(rng, ex, rng.choice([1, 1, 2]), versions=(9, 10))))
        out.append(("redefine", ops))
    return out


def fam_rejected_template(rng, n, want=()):
    """C06: a template record that the parser REJECTS (no fields, only zero-length fields, cut short) for an id that
    is cached as the other kind or the same kind must leave the caches and later decoding untouched"""
    out = []
    for _ in range(n):
        tid = rng.choice([256, 260, 300])
        kind = rng.choice(["opt", "tpl"])
        good = ip_template(rng, tid, lossless=True, varlen=False, enterprise=False)
        if kind == "opt":
            good["scopeCount"] = 1
            define = {"optTemplates": {"ts": [good], "pad": ""}}
        else:
            define = {"templates": {"ts": [good], "pad": ""}}
        recs = [ip_record(rng, good["fields"]) for _ in range(2)]
        data = {"ipfix": {"m": {"exportTime": 2, "seq": 2, "odid": 1, "sets": [{"data": {"id": tid, "recs": recs, "pad": ""}}]}}}
        bad_fields = rng.choice([[], [{"typ": 82, "len": 0, "ent": None}], [{"typ": 82, "len": 0, "ent": None}, {"typ": 83, "len": 0, "ent": None}]])
        bad_kind = rng.choice(["templates", "optTemplates"])
        bad_t = {"id": tid, "fields": bad_fields}
        if bad_kind == "optTemplates":
            bad_t["scopeCount"] = 0
        bad = {"ipfix": {"m": {"exportTime": 3, "seq": 3, "odid": 1, "sets": [{bad_kind: {"ts": [bad_t], "pad": ""}}]}}}
        dm = {"ipfix": {"m": {"exportTime": 1, "seq": 1, "odid": 1, "sets": [define]}}}
        ops = [op_new(0), op_new(1)]
        for pid in (0, 1):
            o = op_parse(pid, msgs=[dm], want=list(want)); o["nospec"] = True; ops.append(o)
        o = op_parse(0, msgs=[data], want=list(want)); o["nospec"] = True; ops.append(o)
        o = op_parse(0, msgs=[bad], want=list(want)); o["nospec"] = True; ops.append(o)
        ops.append({"op": "assert_unchanged", "a": 0, "key": "C06"})
        o = op_parse(0, msgs=[data], want=list(want)); o["nospec"] = True; ops.append(o)
        # the twin parser never saw the rejected record
        o = op_parse(1, msgs=[data], want=list(want)); o["nospec"] = True; ops.append(o)
        o = op_parse(1, hexs="", want=list(want)); ops.append(o)
        o = op_parse(1, msgs=[data], want=list(want)); o["nospec"] = True; ops.append(o)
        ops.append({"op": "assert_same", "a": 0, "b": 1, "key": "C06", "last_only": True})
        out.append(("rejected-template", ops))
    return out


def fam_template_noise(rng, n):
    """C06: a V9 template flowset in which complete, well-formed template records are separated by an all-zero record header
    (id 0, field count 0 — what exporters' zero fill looks like to a record parser): every real record must still reach the cache.
    Twin parser: the same records in separate, clean flowsets; the data that follows must decode identically."""
    out = []
    for _ in range(n):
        ids = rng.sample([256, 257, 300, 301, 1000], rng.choice([2, 3]))
        old = [v9_template(rng, i, lossless=True) for i in ids]
        new = [v9_template(rng, i, lossless=True) for i in ids]
        zero = {"id": 0, "fieldCount": 0, "fields": []}
        noisy = []
        for t in new:
            if noisy or rng.random() < 0.5:
                noisy.extend([zero] * rng.choice([1, 1, 2]))
            noisy.append(t)
        if rng.random() < 0.3:
            noisy.append(zero)

        def v9m(sets, k):
            return {"v9": {"m": {"count": len(sets), "sysUpTime": k, "unixSecs": k, "seq": k, "sourceId": 1, "sets": sets}}}
        data = v9m([{"data": {"id": t["id"], "recs": [v9_record(rng, t) for _ in range(2)], "pad": ""}} for t in new], 3)
        ops = [op_new(0), op_new(1)]
        if rng.random() < 0.6:
            for pid in (0, 1):
                o = op_parse(pid, msgs=[v9m([{"templates": {"ts": old, "pad": ""}}], 1)], want=[]); o["nospec"] = True; ops.append(o)
        o = op_parse(0, msgs=[v9m([{"templates": {"ts": noisy, "pad": ""}}], 2)], want=[]); o["nospec"] = True; ops.append(o)
        o = op_parse(1, msgs=[v9m([{"templates": {"ts": [t], "pad": ""}} for t in new], 2)], want=[]); o["nospec"] = True; ops.append(o)
        for pid in (0, 1):
            o = op_parse(pid, msgs=[data], want=[]); o["nospec"] = True; ops.append(o)
        # the zero record is itself cached as "template 0" by the crate, so the caches differ by that id: compare the decoding
        ops.append({"op": "assert_same", "a": 0, "b": 1, "key": "C06", "last_only": True, "pkts_only": True})
        out.append(("template-noise", ops))
    return out


def fam_unknown_template(rng, n):
    """C07: a data set whose template id is unknown to this parser/protocol (but possibly known to the
    other protocol or to another parser), alone, after other packets, and later followed by the template"""
    out = []
    for _ in range(n):
        ex = Exporter(rng, simple_ipfix=True, lossless=True)
        other = Exporter(rng, simple_ipfix=True, lossless=True)
        proto = rng.choice([9, 10])
        tid = rng.choice([256, 300, 999, 255, 255, 65535] + ([2, 100, 254] if proto == 9 else []))
        ops = [op_new(0), op_new(1)]
        # the id is defined in the OTHER protocol on p0 and in the same protocol on p1
        if proto == 9:
            t_other = ip_template(rng, tid, lossless=True, varlen=False, enterprise=False)
            ops.append(op_parse(0, msgs=[{"ipfix": {"m": {"exportTime": 1, "seq": 1, "odid": 1, "sets": [{"templates": {"ts": [t_other], "pad": ""}}]}}}], want=[]))
            t = v9_template(rng, tid, lossless=True)
            ops.append(op_parse(1, msgs=[{"v9": {"m": {"count": 1, "sysUpTime": 1, "unixSecs": 1, "seq": 1, "sourceId": 1, "sets": [{"templates": {"ts": [t], "pad": ""}}]}}}], want=[]))
            recs = [v9_record(rng, t) for _ in range(rng.randrange(1, 4))]
            data = {"v9": {"m": {"count": 1, "sysUpTime": 2, "unixSecs": 2, "seq": 2, "sourceId": 1, "sets": [{"data": {"id": tid, "recs": recs, "pad": ""}}]}}}
            tmsg = {"v9": {"m": {"count": 1, "sysUpTime": 3, "unixSecs": 3, "seq": 3, "sourceId": 1, "sets": [{"templates": {"ts": [t], "pad": ""}}]}}}
        else:
            t_other = v9_template(rng, tid, lossless=True)
            ops.append(op_parse(0, msgs=[{"v9": {"m": {"count": 1, "sysUpTime": 1, "unixSecs": 1, "seq": 1, "sourceId": 1, "sets": [{"templates": {"ts": [t_other], "pad": ""}}]}}}], want=[]))
            t = ip_template(rng, tid, lossless=True, varlen=False, enterprise=False)
            ops.append(op_parse(1, msgs=[{"ipfix": {"m": {"exportTime": 1, "seq": 1, "odid": 1, "sets": [{"templates": {"ts": [t], "pad": ""}}]}}}], want=[]))
            recs = [ip_record(rng, t["fields"]) for _ in range(rng.randrange(1, 4))]
            data = {"ipfix": {"m": {"exportTime": 2, "seq": 2, "odid": 1, "sets": [{"data": {"id": tid, "recs": recs, "pad": ""}}]}}}
            tmsg = {"ipfix": {"m": {"exportTime": 3, "seq": 3, "odid": 1, "sets": [{"templates": {"ts": [t], "pad": ""}}]}}}
        if proto == 10 and rng.random() < 0.35:
            # a template record for tid that the parser must REJECT (no usable field) does not make tid known
            bad_fields = rng.choice([[], [{"typ": 82, "len": 0, "ent": None}], [{"typ": 8, "len": 0, "ent": None}, {"typ": 12, "len": 0, "ent": None}]])
            bk = rng.choice(["templates", "optTemplates"])
            bt = {"id": tid, "fields": bad_fields}
            if bk == "optTemplates":
                bt["scopeCount"] = 0
            o = op_parse(0, msgs=[{"ipfix": {"m": {"exportTime": 1, "seq": 1, "odid": 1, "sets": [{bk: {"ts": [bt], "pad": ""}}]}}}], want=[])
            o["nospec"] = True
            ops.append(o)
        if rng.random() < 0.3:
            # the template arrives in a packet the parser REFUSES (its version is not allowed at that moment); afterwards the
            # version is allowed again: the id must still be unknown, the caches untouched
            ops.append({"op": "allowed", "p": 0, "set": [v for v in (5, 7, 9, 10) if v != proto] + extra_versions(rng, 0.2)})
            ops.append(op_parse(0, msgs=[tmsg], want=[]))
            ops.append({"op": "assert_unchanged", "a": 0, "key": "C07"})
            ops.append({"op": "allowed", "p": 0, "set": [5, 7, 9, 10]})
        before = [msg_v5(rng, 1)] if rng.random() < 0.5 else []
        # the unknown data set is not always the first set of its packet: put a template for ANOTHER id
        # and/or a decodable data set in front of it
        if rng.random() < 0.6:
            other_id = 4242
            key = "v9" if proto == 9 else "ipfix"
            if proto == 9:
                t2 = v9_template(rng, other_id, lossless=True)
                front = [{"templates": {"ts": [t2], "pad": ""}}]
                if rng.random() < 0.5:
                    front.append({"data": {"id": other_id, "recs": [v9_record(rng, t2)], "pad": ""}})
                m = data["v9"]["m"]
                m["sets"] = front + m["sets"]
                m["count"] = len(m["sets"])
            else:
                t2 = ip_template(rng, other_id, lossless=True, varlen=False, enterprise=False)
                front = [{"templates": {"ts": [t2], "pad": ""}}]
                if rng.random() < 0.5:
                    front.append({"data": {"id": other_id, "recs": [ip_record(rng, t2["fields"])], "pad": ""}})
                m = data["ipfix"]["m"]
                m["sets"] = front + m["sets"]
        o = op_parse(0, msgs=before + [data], want=[])
        o["unknown_id"] = tid
        o["unknown_proto"] = proto
        ops.append(o)
        if len((data.get("v9") or data.get("ipfix"))["m"]["sets"]) == 1:
            # nothing but the unknown data set in the packet: the caches must not move at all
            ops.append({"op": "assert_unchanged", "a": 0, "key": "C07"})
        # later the template arrives, then the same data decodes normally (C04/C05 oracle on that call)
        ops.append(op_parse(0, msgs=[tmsg], want=[]))
        ops.append(op_parse(0, msgs=[data], want=[]))
        out.append(("unknown-template", ops))
    return out


def fam_boundaries(rng):
    """explicit cases on both sides of every constant the hand-modelled control logic compares with
    (set/flowset ids around 0,1,2,3,255,256; lengths around 4 and 16; scope lengths not multiples of 4;
    enterprise bit boundary 32767/32768; variable-length prefix 254/255; duration seconds around 2^32)"""
    out = []
    def v9hdr(count):
        return (9).to_bytes(2, "big") + count.to_bytes(2, "big") + bytes(16)
    def iphdr(total):
        return (10).to_bytes(2, "big") + total.to_bytes(2, "big") + bytes(12)
    tmpl_body = (256).to_bytes(2, "big") + (1).to_bytes(2, "big") + (1).to_bytes(2, "big") + (4).to_bytes(2, "big")
    # flowset / set ids at the boundaries, with a template-shaped body, then a data set for id 256
    for sid in (0, 1, 2, 3, 4, 100, 254, 255, 256, 257):
        fs = sid.to_bytes(2, "big") + (4 + len(tmpl_body)).to_bytes(2, "big") + tmpl_body
        data = (256).to_bytes(2, "big") + (8).to_bytes(2, "big") + bytes([0, 0, 0, 7])
        out.append(("boundary-v9-flowset-id", [op_new(0), op_parse(0, hexs=hx(v9hdr(1) + fs)), op_parse(0, hexs=hx(v9hdr(1) + data))]))
        out.append(("boundary-ipfix-set-id", [op_new(0), op_parse(0, hexs=hx(iphdr(16 + len(fs)) + fs)), op_parse(0, hexs=hx(iphdr(16 + 8) + data))]))
    # flowset / set / message lengths around their minimum
    for ln in (0, 1, 2, 3, 4, 5):
        fs = (0).to_bytes(2, "big") + ln.to_bytes(2, "big") + tmpl_body
        out.append(("boundary-v9-flowset-len", [op_new(0), op_parse(0, hexs=hx(v9hdr(2) + fs))]))
        st = (2).to_bytes(2, "big") + ln.to_bytes(2, "big") + tmpl_body
        out.append(("boundary-ipfix-set-len", [op_new(0), op_parse(0, hexs=hx(iphdr(16 + len(st)) + st))]))
    for total in (0, 1, 15, 16, 17, 19, 20):
        st = (2).to_bytes(2, "big") + (4 + len(tmpl_body)).to_bytes(2, "big") + tmpl_body
        out.append(("boundary-ipfix-msg-len", [op_new(0), op_parse(0, hexs=hx(iphdr(total) + st + (5).to_bytes(2, "big") + bytes(22)))]))
    # V9 options template whose scope / option lengths are not multiples of 4, then options data
    for sl, ol in ((4, 4), (5, 4), (6, 7), (3, 8), (0, 4), (4, 0), (7, 1)):
        body = (300).to_bytes(2, "big") + sl.to_bytes(2, "big") + ol.to_bytes(2, "big") + b"".join((1).to_bytes(2, "big") + (2).to_bytes(2, "big") for _ in range(sl // 4)) + b"".join((8).to_bytes(2, "big") + (4).to_bytes(2, "big") for _ in range(ol // 4))
        body += bytes(rng.choice([0, 1, 2, 3]))
        fs = (1).to_bytes(2, "big") + (4 + len(body)).to_bytes(2, "big") + body
        data = (300).to_bytes(2, "big") + (4 + 8).to_bytes(2, "big") + bytes(range(8))
        out.append(("boundary-v9-scope-len", [op_new(0), op_parse(0, hexs=hx(v9hdr(1) + fs)), op_parse(0, hexs=hx(v9hdr(1) + data))]))
    # V9 options template whose SCOPE FIELD TYPE is outside 1..5 (0, 6, 255, 65535) or whose scope/option field lengths are 0,
    # then options data in the same packet and in a later call
    for styp in (0, 1, 5, 6, 7, 255, 256, 65535):
        for slen, olen in ((2, 4), (0, 4), (4, 0)):
            body = (301).to_bytes(2, "big") + (4).to_bytes(2, "big") + (4).to_bytes(2, "big") + styp.to_bytes(2, "big") + slen.to_bytes(2, "big") + (8).to_bytes(2, "big") + olen.to_bytes(2, "big")
            fs = (1).to_bytes(2, "big") + (4 + len(body)).to_bytes(2, "big") + body
            data = (301).to_bytes(2, "big") + (4 + 8).to_bytes(2, "big") + bytes(range(1, 9))
            out.append(("boundary-v9-scope-type", [op_new(0), op_parse(0, hexs=hx(v9hdr(1) + fs)), op_parse(0, hexs=hx(v9hdr(1) + data)),
                                                   op_parse(0, hexs=hx(v9hdr(2) + fs + data))]))
    # IPFIX enterprise-bit boundary: field numbers 32767 / 32768 / 65535, with and without room for the PEN
    for num, extra in ((32767, b""), (32768, (9).to_bytes(4, "big")), (32768, b""), (65535, (1).to_bytes(4, "big")), (32769, b"\x00\x00")):
        body = (256).to_bytes(2, "big") + (1).to_bytes(2, "big") + num.to_bytes(2, "big") + (2).to_bytes(2, "big") + extra
        st = (2).to_bytes(2, "big") + (4 + len(body)).to_bytes(2, "big") + body
        data = (256).to_bytes(2, "big") + (4 + 4).to_bytes(2, "big") + bytes([1, 2, 3, 4])
        out.append(("boundary-ipfix-enterprise-bit", [op_new(0), op_parse(0, hexs=hx(iphdr(16 + len(st)) + st)), op_parse(0, hexs=hx(iphdr(16 + 8) + data))]))
    # variable-length prefix 254 / 255 (long form) / 255 with a short length
    vt = {"id": 256, "fields": [{"typ": IP_BY_TY["str"][0], "len": 65535, "ent": None}]}
    tm = {"ipfix": {"m": {"exportTime": 1, "seq": 1, "odid": 1, "sets": [{"templates": {"ts": [vt], "pad": ""}}]}}}
    for n, form in ((254, "short"), (255, "long"), (256, "long"), (3, "long"), (0, "short"), (0, "long")):
        dm = {"ipfix": {"m": {"exportTime": 2, "seq": 2, "odid": 1, "sets": [{"data": {"id": 256, "recs": [[{"content": "61" * n, "form": form}]], "pad": ""}}]}}}
        out.append(("boundary-ipfix-varlen-prefix", [op_new(0), op_parse(0, msgs=[tm]), op_parse(0, msgs=[dm])]))
    # 8-byte duration in seconds around 2^32 (the exporter fails above)
    durs = IP_BY_TY.get("durS", [])
    if durs:
        dt = {"id": 256, "fields": [{"typ": durs[0], "len": 8, "ent": None}]}
        tm2 = {"ipfix": {"m": {"exportTime": 1, "seq": 1, "odid": 1, "sets": [{"templates": {"ts": [dt], "pad": ""}}]}}}
        for v in (2 ** 32 - 1, 2 ** 32, 2 ** 32 + 1, 2 ** 64 - 1, 0):
            dm = {"ipfix": {"m": {"exportTime": 2, "seq": 2, "odid": 1, "sets": [{"data": {"id": 256, "recs": [[{"content": hx(v.to_bytes(8, "big")), "form": "fixed"}]], "pad": ""}}]}}}
            out.append(("boundary-duration-2^32", [op_new(0), op_parse(0, msgs=[tm2]), op_parse(0, msgs=[dm])]))
    return out + fam_literals(rng, cap=60)


def load_literals():
    """integer literals of the library source as harvested by translate.py on THIS run (plus neighbours)"""
    path = os.path.join(HERE, "..", "work", "literals.json")
    try:
        lits = json.load(open(path))
    except Exception:
        lits = [0, 1, 2, 3, 4, 5, 7, 9, 10, 16, 255, 32767, 32768, 65535]
    out = set()
    for v in lits:
        for d in (-1, 0, 1):
            if 0 <= v + d <= 65535:
                out.add(v + d)
    return sorted(out)


def fam_literals(rng, cap=None):
    """every integer literal of the source (and its neighbours) used as template id, flowset / set id, field type
    number and field length — raw behaviour compared with the model (and the always-on oracles)"""
    out = []
    vals = load_literals()
    if cap is not None and len(vals) > cap:
        vals = sorted(rng.sample(vals, cap))
    def v9hdr(count):
        return (9).to_bytes(2, "big") + count.to_bytes(2, "big") + bytes(16)
    def iphdr(total):
        return (10).to_bytes(2, "big") + total.to_bytes(2, "big") + bytes(12)
    for v in vals:
        b2 = v.to_bytes(2, "big")
        # as template id + data flowset id (V9 and IPFIX)
        tb = b2 + (1).to_bytes(2, "big") + (1).to_bytes(2, "big") + (4).to_bytes(2, "big")
        fs9 = (0).to_bytes(2, "big") + (4 + len(tb)).to_bytes(2, "big") + tb
        st10 = (2).to_bytes(2, "big") + (4 + len(tb)).to_bytes(2, "big") + tb
        data = b2 + (12).to_bytes(2, "big") + bytes([0, 0, 0, 7, 0, 0, 1, 0])
        out.append(("literal-id", [op_new(0), op_parse(0, hexs=hx(v9hdr(1) + fs9)), op_parse(0, hexs=hx(v9hdr(1) + data)),
                                   op_parse(0, hexs=hx(iphdr(16 + len(st10)) + st10)), op_parse(0, hexs=hx(iphdr(28) + data))]))
        # as field type number (template id 256) and as field length (string type), V9 and IPFIX
        for typ, ln in ((v, 4), (94, min(v, 300))):
            tb = (256).to_bytes(2, "big") + (2).to_bytes(2, "big") + typ.to_bytes(2, "big") + ln.to_bytes(2, "big") + (1).to_bytes(2, "big") + (2).to_bytes(2, "big")
            if typ > 32767:
                tb10 = (256).to_bytes(2, "big") + (2).to_bytes(2, "big") + typ.to_bytes(2, "big") + ln.to_bytes(2, "big") + (9).to_bytes(4, "big") + (1).to_bytes(2, "big") + (2).to_bytes(2, "big")
            else:
                tb10 = tb
            body = rbytes(rng, 2 * (ln + 2))
            fs9 = (0).to_bytes(2, "big") + (4 + len(tb)).to_bytes(2, "big") + tb
            st10 = (2).to_bytes(2, "big") + (4 + len(tb10)).to_bytes(2, "big") + tb10
            data = (256).to_bytes(2, "big") + (4 + len(body)).to_bytes(2, "big") + body
            out.append(("literal-field", [op_new(0), op_parse(0, hexs=hx(v9hdr(1) + fs9)), op_parse(0, hexs=hx(v9hdr(1) + data)),
                                          op_parse(0, hexs=hx(iphdr(16 + len(st10)) + st10)), op_parse(0, hexs=hx(iphdr(16 + len(data)) + data))]))
        # as V9 flowset count / V5 record count with a short body
        out.append(("literal-count", [op_new(0), op_parse(0, hexs=hx((9).to_bytes(2, "big") + b2 + bytes(16) + fs9)),
                                      op_parse(0, hexs=hx((5).to_bytes(2, "big") + b2 + bytes(20) + bytes(48 * min(v, 3))))]))
    return out


def fam_widths(rng, proto, sample=None):
    """every library type crossed with every declared width 0..20 (and IPFIX variable length): supported widths
    carry the abstract messages (spec oracle), unsupported ones are raw behaviour compared with the model only"""
    out = []
    by_ty = V9_BY_TY if proto == 9 else IP_BY_TY
    combos = [(ty, w) for ty in sorted(by_ty) for w in list(range(0, 21)) + ([65535] if proto == 10 else [])]
    if sample is not None and sample < len(combos):
        combos = rng.sample(combos, sample)
    for ty, w in combos:
        n = by_ty[ty][0]
        supported = w in WIDTHS.get(ty, []) or ty in ("str", "vec", "unknown")
        nrec = 2
        if proto == 9:
            if w == 0 and ty not in ("str", "vec", "unknown"):
                supported = False
            t = {"id": 256, "fieldCount": 2, "fields": [{"typ": n, "len": w}, {"typ": 1, "len": 4}]}
            recs = [[hx(value_for(rng, ty, w)), hx(rbytes(rng, 4))] for _ in range(nrec)]
            tm = {"v9": {"m": {"count": 1, "sysUpTime": 1, "unixSecs": 1, "seq": 1, "sourceId": 1, "sets": [{"templates": {"ts": [t], "pad": ""}}]}}}
            dm = {"v9": {"m": {"count": 1, "sysUpTime": 2, "unixSecs": 2, "seq": 2, "sourceId": 1, "sets": [{"data": {"id": 256, "recs": recs, "pad": ""}}]}}}
        else:
            t = {"id": 256, "fields": [{"typ": n, "len": w, "ent": None}, {"typ": 1, "len": 4, "ent": None}]}
            recs = []
            for _ in range(nrec):
                if w == 65535:
                    k = rng.randrange(0, 9)
                    recs.append([{"content": hx(value_for(rng, ty, k)), "form": rng.choice(["short", "long"])}, {"content": hx(rbytes(rng, 4)), "form": "fixed"}])
                else:
                    recs.append([{"content": hx(value_for(rng, ty, w)), "form": "fixed"}, {"content": hx(rbytes(rng, 4)), "form": "fixed"}])
            if w == 65535:
                supported = ty in ("str", "vec", "unknown")
            tm = {"ipfix": {"m": {"exportTime": 1, "seq": 1, "odid": 1, "sets": [{"templates": {"ts": [t], "pad": ""}}]}}}
            dm = {"ipfix": {"m": {"exportTime": 2, "seq": 2, "odid": 1, "sets": [{"data": {"id": 256, "recs": recs, "pad": ""}}]}}}
        o1, o2 = op_parse(0, msgs=[tm]), op_parse(0, msgs=[dm])
        if not supported:
            o1["nospec"] = True
            o2["nospec"] = True
        out.append(("widths-%s" % ("ok" if supported else "unsupported"), [op_new(0), o1, o2]))
    return out


def fam_orphan(rng, n):
    """data sets whose template this parser has never seen (data before template, collector restart),
    in the middle of a buffer: followed by further packets, later followed by the template"""
    out = []
    for _ in range(n):
        ex = Exporter(rng, lossless=True, simple_ipfix=True)
        proto = rng.choice([9, 10])
        tid = rng.choice([256, 300, 999])
        if proto == 9:
            t = v9_template(rng, tid, lossless=True)
            sets = [{"data": {"id": tid, "recs": [v9_record(rng, t) for _ in range(rng.randrange(1, 3))], "pad": ""}}]
            if rng.random() < 0.5:
                t2 = v9_template(rng, 4242, lossless=True)
                sets = [{"templates": {"ts": [t2], "pad": ""}}] + sets
            if rng.random() < 0.4:
                sets = sets + [{"templates": {"ts": [v9_template(rng, 4343, lossless=True)], "pad": ""}}]
            orphan = {"v9": {"m": {"count": len(sets), "sysUpTime": 1, "unixSecs": 1, "seq": 1, "sourceId": 1, "sets": sets}}}
            tmsg = {"v9": {"m": {"count": 1, "sysUpTime": 2, "unixSecs": 2, "seq": 2, "sourceId": 1, "sets": [{"templates": {"ts": [t], "pad": ""}}]}}}
        else:
            t = ip_template(rng, tid, lossless=True, varlen=False, enterprise=False)
            sets = [{"data": {"id": tid, "recs": [ip_record(rng, t["fields"]) for _ in range(rng.randrange(1, 3))], "pad": ""}}]
            if rng.random() < 0.5:
                sets = [{"templates": {"ts": [ip_template(rng, 4242, lossless=True, varlen=False, enterprise=False)], "pad": ""}}] + sets
            if rng.random() < 0.4:
                sets = sets + [{"templates": {"ts": [ip_template(rng, 4343, lossless=True, varlen=False, enterprise=False)], "pad": ""}}]
            orphan = {"ipfix": {"m": {"exportTime": 1, "seq": 1, "odid": 1, "sets": sets}}}
            tmsg = {"ipfix": {"m": {"exportTime": 2, "seq": 2, "odid": 1, "sets": [{"templates": {"ts": [t], "pad": ""}}]}}}
        before = rand_packets(rng, ex, rng.randrange(0, 2), versions=(5, 7))
        after = rand_packets(rng, ex, rng.randrange(1, 3))
        ops = [op_new(0)]
        o = op_parse(0, msgs=before + [orphan] + after)
        o["nospec"] = True
        ops.append(o)
        o2 = op_parse(0, msgs=[tmsg, orphan] + after)
        o2["nospec"] = True
        ops.append(o2)
        out.append(("orphan-data", ops))
    return out


def _full_house(rng, proto):
    types = V9_TYPES if proto == 9 else IP_TYPES
    nat = {"ip4": 4, "ip6": 16, "mac": 6, "proto": 1}
    fs = []
    for nfield in COMMON_V9:
        ty = types.get(nfield, "unknown")
        w = nat.get(ty) or (2 if nfield in (7, 11) else 4)
        fs.append({"typ": nfield, "len": w})
    fs += [dict(f) for f in rng.sample(fs, rng.choice([0, 1, 3]))]
    rng.shuffle(fs)
    tid = rng.choice([256, 400, 999])

    def content(f):
        ty = types.get(f["typ"], "unknown")
        return hx(value_for(rng, ty, f["len"]))
    nrec = rng.choice([1, 2, 3])
    if proto == 9:
        t = {"id": tid, "fieldCount": len(fs), "fields": fs}
        recs = [[content(f) for f in fs] for _ in range(nrec)]
        return [{"v9": {"m": {"count": 2, "sysUpTime": rnat(rng, 4), "unixSecs": rnat(rng, 4), "seq": 1, "sourceId": 1,
                              "sets": [{"templates": {"ts": [t], "pad": ""}}, {"data": {"id": tid, "recs": recs, "pad": ""}}]}}}]
    t = {"id": tid, "fields": [dict(f, ent=None) for f in fs]}
    recs = [[{"content": content(f), "form": "fixed"} for f in fs] for _ in range(nrec)]
    return [{"ipfix": {"m": {"exportTime": rnat(rng, 4), "seq": 1, "odid": 1,
                             "sets": [{"templates": {"ts": [t], "pad": ""}}, {"data": {"id": tid, "recs": recs, "pad": ""}}]}}}]


def fam_common(rng, n):
    """C13: templates made of the projected fields (any subset/order, IPv4 or IPv6), several records
    and data sets; `flat` on a second parser with the same history"""
    out = []
    for _ in range(n):
        ops = [op_new(0), op_new(1)]
        ex = Exporter(rng, common=True, simple_ipfix=True)
        calls = [rand_packets(rng, ex, rng.choice([1, 2])) for _ in range(rng.randrange(1, 4))]
        if rng.random() < 0.3:
            # a "full house": EVERY projected field (both address families, ports, protocol, first/last, both MACs) in one template,
            # shuffled, some of them twice, with the width the library decodes into the kind the converter accepts
            calls.append(_full_house(rng, rng.choice([9, 10])))
        for c in calls:
            ops.append(op_parse(0, msgs=c, want=["common"]))
            ops.append({"op": "flat", "p": 1, "msgs": c})
        ops.append({"op": "assert_flat", "a": 0, "b": 1})
        out.append(("common", ops))
    return out


def fam_sizes(rng, tier="quick", want=("export", "common", "json")):
    """size thresholds, swept: every variable-size part of a result — the undecoded bytes of an error element (all three error kinds),
    a variable-length string / byte-vector value, the padding of a data flowset, a whole buffer — at lengths on both sides of the powers
    of two from 2^8 to 2^16 (and the harvested literals), so that a cap, a fixed-size scratch area or a narrower integer somewhere is met"""
    out = []
    want = list(want)
    sizes = sorted(set([255, 256, 257, 511, 512, 513, 1023, 1024, 1025, 1500, 2047, 2048, 2049, 4095, 4096, 4097, 8191, 8192, 8193, 16383, 16384, 16385,
                        32767, 32768, 32769, 65000, 65500] + [v for v in LITERALS if 300 <= v <= 65500]))
    if tier == "quick":
        sizes = [n for n in sizes if n in (255, 256, 257, 1023, 1024, 1025, 2047, 2048, 2049, 4096, 4097, 8193, 16385, 32769, 65000)] + [v for v in LITERALS if 300 <= v <= 65500][:6]
    str_f = (IP_BY_TY.get("str") or [82])[0]
    vec_f = (IP_BY_TY.get("vec") or [IP_BY_TY.get("unknown", [600])[0]])[0]
    for nbytes in sizes:
        body = rbytes(rng, nbytes)
        ops = [op_new(0, allowed=[5, 7, 9, 10, 12])]
        # (1) unknown (allowed) version word followed by n bytes; (2) a V5 header announcing more records than the n bytes hold;
        # (3) V9 data for an id nobody announced; (4) one byte (Incomplete) — each after a complete packet in the same buffer
        pre = msg_v5(rng, 1)
        for raw in ((12).to_bytes(2, "big") + body,
                    (5).to_bytes(2, "big") + (60000).to_bytes(2, "big") + body,
                    (9).to_bytes(2, "big") + (1).to_bytes(2, "big") + bytes(16) + (999).to_bytes(2, "big") + min(nbytes + 4, 65535).to_bytes(2, "big") + body):
            o = op_parse(0, msgs=[pre, {"raw": {"b": hx(raw)}}], want=want); o["nospec"] = True; ops.append(o)
        out.append(("sizes-error-%d" % nbytes, ops))
        if nbytes <= 65000:
            # (5) variable-length string and byte-vector values of that length (3-byte length prefix), (6) V9 padding of that length
            t = {"id": 256, "fields": [{"typ": str_f, "len": 65535, "ent": None}, {"typ": vec_f, "len": 65535, "ent": 9}, {"typ": 1, "len": 4, "ent": None}]}
            tm = {"ipfix": {"m": {"exportTime": 1, "seq": 1, "odid": 1, "sets": [{"templates": {"ts": [t], "pad": ""}}]}}}
            half = nbytes // 2
            rec = [{"content": hx(bytes(rng.choice(b"abcXYZ019 _-") for _ in range(half))), "form": "long"},
                   {"content": hx(rbytes(rng, nbytes - half - 20 if nbytes - half > 40 else 3)), "form": "long"}, {"content": "0000002a", "form": "fixed"}]
            data = {"ipfix": {"m": {"exportTime": 2, "seq": 2, "odid": 1, "sets": [{"data": {"id": 256, "recs": [rec], "pad": ""}}]}}}
            o1 = op_parse(0, msgs=[tm], want=[]); o1["nospec"] = True
            o2 = op_parse(0, msgs=[data], want=want); o2["nospec"] = True
            ops2 = [op_new(0), o1, o2]
            if nbytes < 65000:
                big = {"id": 300, "fieldCount": 2, "fields": [{"typ": 1, "len": 4}, {"typ": 94, "len": min(nbytes, 60000)}]}
                t9 = {"v9": {"m": {"count": 1, "sysUpTime": 1, "unixSecs": 1, "seq": 1, "sourceId": 1, "sets": [{"templates": {"ts": [big], "pad": ""}}]}}}
                d9 = {"v9": {"m": {"count": 1, "sysUpTime": 2, "unixSecs": 2, "seq": 2, "sourceId": 1, "sets": [{"data": {"id": 300, "recs": [], "pad": hx(rbytes(rng, min(nbytes, 60000) + 3))}}]}}}
                o3 = op_parse(0, msgs=[t9], want=[]); o3["nospec"] = True
                o4 = op_parse(0, msgs=[d9], want=want); o4["nospec"] = True
                ops2 += [o3, o4]
            out.append(("sizes-value-%d" % nbytes, ops2))
    return out


def fam_json(rng, n):
    """C16: every kind of result (all versions, errors with arbitrary remaining bytes, 128-bit counters,
    NaN/infinite floats, non-UTF-8 strings, empty values) serialised twice and on a twin parser"""
    out = []
    specials = ["7ff8000000000001", "7ff0000000000000", "fff0000000000000", "0000000000000000", "8000000000000000", "3ff8000000000000", "7fefffffffffffff", "0000000000000001"]
    for _ in range(n):
        ex = Exporter(rng)
        calls = [rand_packets(rng, ex, rng.choice([1, 2])) for _ in range(rng.randrange(1, 4))]
        if rng.random() < 0.3:
            calls.append([{"raw": {"b": hx(rbytes(rng, rng.choice([1, 3, 9, 30])))}}])
        ops = [op_new(0), op_new(1)]
        for c in calls:
            ops.append(op_parse(0, msgs=c, want=["json"]))
        for c in calls:
            ops.append(op_parse(1, msgs=c, want=["json"]))
        ops.append({"op": "assert_same", "a": 0, "b": 1, "key": "C16"})
        out.append(("json", ops))
    out += fam_empty_values(rng)
    # targeted: float64 / u128 / strings
    f64_fields = IP_BY_TY.get("f64", [])
    for bits in specials:
        if not f64_fields:
            break
        t = {"id": 256, "fields": [{"typ": f64_fields[0], "len": 8, "ent": None}, {"typ": 1, "len": 16, "ent": None}, {"typ": IP_BY_TY["str"][0], "len": 5, "ent": None}]}
        tm = {"ipfix": {"m": {"exportTime": 1, "seq": 1, "odid": 1, "sets": [{"templates": {"ts": [t], "pad": ""}}]}}}
        rec = [{"content": bits, "form": "fixed"}, {"content": "ff" * 16, "form": "fixed"}, {"content": "61ff62c328", "form": "fixed"}]
        data = {"ipfix": {"m": {"exportTime": 2, "seq": 2, "odid": 1, "sets": [{"data": {"id": 256, "recs": [rec], "pad": ""}}]}}}
        out.append(("json-special", [op_new(0), op_parse(0, msgs=[tm, data], want=["json"])]))
    return out

def fam_empty_values(rng):
    """the 'empty values' of every result kind AFTER the templates are cached: sets without records / without template
    records (alone, before and after a full set), zero-length variable fields, packets without records, empty buffer"""
    out = []
    strf, vecf = IP_BY_TY["str"][0], (IP_BY_TY.get("vec") or IP_BY_TY["str"])[0]
    for kind in ("tpl", "opt"):
        t = {"id": 300, "fields": [{"typ": 1, "len": 4, "ent": None}, {"typ": strf, "len": 65535, "ent": None}, {"typ": vecf, "len": 65535, "ent": None}]}
        if kind == "opt":
            t["scopeCount"] = 1
        define = {("templates" if kind == "tpl" else "optTemplates"): {"ts": [t], "pad": ""}}
        full = {"data": {"id": 300, "recs": [ip_record(rng, t["fields"]) for _ in range(2)], "pad": ""}}
        empty = {"data": {"id": 300, "recs": [], "pad": ""}}
        zero = {"data": {"id": 300, "recs": [[{"content": hx(rbytes(rng, 4)), "form": "fixed"}, {"content": "", "form": "short"}, {"content": "", "form": rng.choice(["short", "long"])}]], "pad": ""}}
        def ipm(sets, k):
            return {"ipfix": {"m": {"exportTime": k, "seq": k, "odid": 1, "sets": sets}}}
        for shape in ([empty], [empty, full], [full, empty], [full, empty, full], [zero], [{"templates": {"ts": [], "pad": ""}}, full], [{"optTemplates": {"ts": [], "pad": ""}}]):
            ops = [op_new(0)]
            o = op_parse(0, msgs=[ipm([define], 1)], want=["json"]); o["nospec"] = True; ops.append(o)
            o = op_parse(0, msgs=[ipm([full], 2)], want=["json"]); o["nospec"] = True; ops.append(o)
            o = op_parse(0, msgs=[ipm(shape, 3)], want=["json", "export"]); o["nospec"] = True; ops.append(o)
            out.append(("empty-ipfix-" + kind, ops))
    # V9: data / options data / template sets without records, header-only packet
    t9 = v9_template(rng, 300, lossless=True)
    o9 = v9_opt_template(rng, 301)
    def v9m(sets):
        return {"v9": {"m": {"count": len(sets), "sysUpTime": 1, "unixSecs": 2, "seq": 3, "sourceId": 4, "sets": sets}}}
    defs = v9m([{"templates": {"ts": [t9], "pad": ""}}, {"optTemplates": {"ts": [o9], "pad": ""}}])
    full9 = {"data": {"id": 300, "recs": [v9_record(rng, t9)], "pad": ""}}
    for shape in ([{"data": {"id": 300, "recs": [], "pad": ""}}], [{"data": {"id": 300, "recs": [], "pad": ""}}, full9], [full9, {"data": {"id": 301, "recs": [], "pad": ""}}],
                  [{"templates": {"ts": [], "pad": ""}}, full9], [{"optTemplates": {"ts": [], "pad": ""}}], []):
        ops = [op_new(0)]
        o = op_parse(0, msgs=[defs], want=["json"]); o["nospec"] = True; ops.append(o)
        o = op_parse(0, msgs=[v9m(shape)], want=["json", "export"]); o["nospec"] = True; ops.append(o)
        out.append(("empty-v9", ops))
    out.append(("empty-fixed", [op_new(0), op_parse(0, msgs=[msg_v5(rng, 0), msg_v7(rng, 0)], want=["json", "export"]), op_parse(0, hexs="", want=["json"])]))
    return out


def fam_extremal(rng, tier):
    """C01/C15: the proved worst cases for recursion depth and allocation, always AFTER a history that
    cached attacker-chosen templates"""
    out = []
    # (a) one IPFIX data set packed with 1-byte records (recursion depth = number of records)
    for nrec in ([2000, 20000] if tier == "quick" else [1000, 2000, 4000, 8000, 16000, 32000, 65000]):
        t = {"id": 256, "fields": [{"typ": 4, "len": 1, "ent": None}]}
        tm = {"ipfix": {"m": {"exportTime": 1, "seq": 1, "odid": 1, "sets": [{"templates": {"ts": [t], "pad": ""}}]}}}
        data = {"ipfix": {"m": {"exportTime": 2, "seq": 2, "odid": 1, "sets": [{"data": {"id": 256, "recs": [[{"content": "07", "form": "fixed"}]] * nrec, "pad": ""}}]}}}
        out.append(("extremal-ipfix-records-%d" % nrec, [op_new(0), op_parse(0, msgs=[tm], want=[]), op_parse(0, msgs=[data], want=["export", "common", "json"])]))
    # (b) a buffer packed with minimal packets (recursion depth of parse_bytes = number of packets)
    for npk in ([500, 4095] if tier == "quick" else [250, 500, 1000, 2000, 4095]):
        empty = {"ipfix": {"m": {"exportTime": 1, "seq": 1, "odid": 1, "sets": []}}}
        out.append(("extremal-chain-ipfix-%d" % npk, [op_new(0), op_parse(0, msgs=[empty] * npk, want=["export", "common", "json"])]))
    for npk in ([2730] if tier == "quick" else [1000, 2730]):
        out.append(("extremal-chain-v5-%d" % npk, [op_new(0), op_parse(0, msgs=[msg_v5(rng, 0)] * npk, want=["export", "common", "json"])]))
    # (c) V9 template whose declared total size is zero, then data for it
    for fields in ([], [{"typ": 94, "len": 0}], [{"typ": 95, "len": 0}, {"typ": 94, "len": 0}]):
        t = {"id": 256, "fieldCount": len(fields), "fields": fields}
        tm = {"v9": {"m": {"count": 1, "sysUpTime": 1, "unixSecs": 1, "seq": 1, "sourceId": 1, "sets": [{"templates": {"ts": [t], "pad": ""}}]}}}
        data = {"v9": {"m": {"count": 1, "sysUpTime": 2, "unixSecs": 2, "seq": 2, "sourceId": 1, "sets": [{"data": {"id": 256, "recs": [], "pad": "00000000"}}]}}}
        out.append(("extremal-v9-zero-size", [op_new(0), op_parse(0, msgs=[tm], want=[]), op_parse(0, msgs=[data], want=["export", "common", "json"])]))
    # (c2) V9 template whose declared record size exceeds 65535 (many fields), then a data flowset
    for nf, flen, body in ([(1986, 33, 20000)] if tier == "quick" else [(1986, 33, 20000), (4000, 17, 60000), (3, 32769, 40000)]):
        fields = [{"typ": 94, "len": flen}] * nf
        t = {"id": 256, "fieldCount": nf, "fields": fields}
        tm = {"v9": {"m": {"count": 1, "sysUpTime": 1, "unixSecs": 1, "seq": 1, "sourceId": 1, "sets": [{"templates": {"ts": [t], "pad": ""}}]}}}
        dm = {"raw": {"b": hx(b"\x00\x09\x00\x01" + bytes(16) + (256).to_bytes(2, "big") + (body + 4).to_bytes(2, "big") + bytes(body))}}
        out.append(("extremal-v9-huge-record-%d" % nf, [op_new(0), op_parse(0, msgs=[tm], want=[]), op_parse(0, msgs=[dm], want=["export", "common"])]))
    # (c3) a LARGE template cache built by earlier calls, then small data messages of every kind: the cost of a call
    #      must not depend on cache entries it does not use
    ncache = 1500 if tier == "quick" else 4000
    ops = [op_new(0)]
    per = 120
    for base in range(0, ncache, per):
        ids = list(range(1000 + base, 1000 + min(base + per, ncache)))
        ip_sets = [{"templates": {"ts": [{"id": i, "fields": [{"typ": 1, "len": 4, "ent": None}, {"typ": 2, "len": 4, "ent": None}, {"typ": 8, "len": 4, "ent": None}, {"typ": 12, "len": 4, "ent": None}]}], "pad": ""}} for i in ids]
        ip_osets = [{"optTemplates": {"ts": [{"id": 20000 + i, "scopeCount": 1, "fields": [{"typ": 1, "len": 4, "ent": None}, {"typ": 2, "len": 4, "ent": None}, {"typ": 8, "len": 4, "ent": None}, {"typ": 12, "len": 4, "ent": None}]}], "pad": ""}} for i in ids]
        v9_ts = [{"id": i, "fieldCount": 4, "fields": [{"typ": 1, "len": 4}, {"typ": 2, "len": 4}, {"typ": 8, "len": 4}, {"typ": 12, "len": 4}]} for i in ids]
        v9_os = [{"id": 20000 + i, "scopeLen": 4, "optLen": 4, "scope": [{"typ": 1, "len": 4}], "opts": [{"typ": 1, "len": 4}]} for i in ids]
        ops.append(op_parse(0, msgs=[{"ipfix": {"m": {"exportTime": 1, "seq": 1, "odid": 1, "sets": ip_sets + ip_osets}}},
                                     {"v9": {"m": {"count": 2, "sysUpTime": 1, "unixSecs": 1, "seq": 1, "sourceId": 1, "sets": [{"templates": {"ts": v9_ts, "pad": ""}}, {"optTemplates": {"ts": v9_os, "pad": ""}}]}}}], want=[]))
        ops[-1]["nospec"] = True
    rec16 = "00000001000000020a0000010a000002"
    small = [
        {"ipfix": {"m": {"exportTime": 2, "seq": 2, "odid": 1, "sets": [{"data": {"id": 1000, "recs": [[{"content": rec16[0:8], "form": "fixed"}, {"content": rec16[8:16], "form": "fixed"}, {"content": rec16[16:24], "form": "fixed"}, {"content": rec16[24:32], "form": "fixed"}]], "pad": ""}}]}}},
        {"ipfix": {"m": {"exportTime": 2, "seq": 2, "odid": 1, "sets": [{"data": {"id": 21000, "recs": [[{"content": rec16[0:8], "form": "fixed"}, {"content": rec16[8:16], "form": "fixed"}, {"content": rec16[16:24], "form": "fixed"}, {"content": rec16[24:32], "form": "fixed"}]], "pad": ""}}]}}},
        {"v9": {"m": {"count": 1, "sysUpTime": 2, "unixSecs": 2, "seq": 2, "sourceId": 1, "sets": [{"data": {"id": 1000, "recs": [[rec16[0:8], rec16[8:16], rec16[16:24], rec16[24:32]]], "pad": ""}}]}}},
        {"v9": {"m": {"count": 1, "sysUpTime": 2, "unixSecs": 2, "seq": 2, "sourceId": 1, "sets": [{"data": {"id": 21000, "recs": [[rec16[0:8], rec16[8:16]]], "pad": ""}}]}}},
    ]
    for m in small:
        o = op_parse(0, msgs=[m], want=["export", "common"])
        o["nospec"] = True
        ops.append(o)
    # many small data sets in one message against the large cache
    many = {"ipfix": {"m": {"exportTime": 3, "seq": 3, "odid": 1, "sets": [small[1]["ipfix"]["m"]["sets"][0]] * 150 + [small[0]["ipfix"]["m"]["sets"][0]] * 150}}}
    o = op_parse(0, msgs=[many], want=[]); o["nospec"] = True; ops.append(o)
    out.append(("extremal-large-cache-%d" % ncache, ops))
    # (c4) ONE flowset / set packed with many template records of each kind (cost must stay linear in their number)
    for M in ([2000] if tier == "quick" else [500, 1000, 2000, 4000, 5000]):
        v9_ts = [{"id": 256 + i, "fieldCount": 1, "fields": [{"typ": 1, "len": 4}]} for i in range(M)]
        v9_os = [{"id": 256 + i, "scopeLen": 4, "optLen": 4, "scope": [{"typ": 1, "len": 4}], "opts": [{"typ": 1, "len": 4}]} for i in range(M)]
        ip_ts = [{"id": 256 + i, "fields": [{"typ": 1, "len": 4, "ent": None}]} for i in range(M)]
        ip_os = [{"id": 256 + i, "scopeCount": 1, "fields": [{"typ": 1, "len": 4, "ent": None}, {"typ": 2, "len": 4, "ent": None}]} for i in range(M)]
        for nm, msg in (("v9-templates", {"v9": {"m": {"count": 1, "sysUpTime": 1, "unixSecs": 1, "seq": 1, "sourceId": 1, "sets": [{"templates": {"ts": v9_ts, "pad": ""}}]}}}),
                        ("v9-opt-templates", {"v9": {"m": {"count": 1, "sysUpTime": 1, "unixSecs": 1, "seq": 1, "sourceId": 1, "sets": [{"optTemplates": {"ts": v9_os, "pad": ""}}]}}}),
                        ("v9-both", {"v9": {"m": {"count": 2, "sysUpTime": 1, "unixSecs": 1, "seq": 1, "sourceId": 1, "sets": [{"templates": {"ts": v9_ts[: M // 2], "pad": ""}}, {"optTemplates": {"ts": v9_os[: M // 2], "pad": ""}}]}}}),
                        ("ipfix-templates", {"ipfix": {"m": {"exportTime": 1, "seq": 1, "odid": 1, "sets": [{"templates": {"ts": ip_ts, "pad": ""}}]}}}),
                        ("ipfix-opt-templates", {"ipfix": {"m": {"exportTime": 1, "seq": 1, "odid": 1, "sets": [{"optTemplates": {"ts": ip_os, "pad": ""}}]}}}),
                        ("ipfix-sets", {"ipfix": {"m": {"exportTime": 1, "seq": 1, "odid": 1, "sets": [{"templates": {"ts": [t], "pad": ""}} for t in ip_ts[: M // 2]] + [{"optTemplates": {"ts": [t], "pad": ""}} for t in ip_os[: M // 4]]}}})):
            o = op_parse(0, msgs=[msg], want=["export"])
            o["nospec"] = True
            o2 = op_parse(0, msgs=[msg], want=[])         # the same definitions again: redefinition of a full cache
            o2["nospec"] = True
            # ... then, against the cache filled with ONE kind: a definition of the OTHER kind under a fresh id and under a cached id,
            # a redefinition of the same kind, and data of every kind (any bookkeeping keyed to the cache size / to one of the two maps)
            fresh, old = 256 + M + 7, 256 + 3
            if nm.startswith("v9"):
                def v9m(sets):
                    return {"v9": {"m": {"count": len(sets), "sysUpTime": 3, "unixSecs": 3, "seq": 3, "sourceId": 1, "sets": sets}}}
                tpl = lambda i: {"templates": {"ts": [{"id": i, "fieldCount": 1, "fields": [{"typ": 2, "len": 4}]}], "pad": ""}}
                opt = lambda i: {"optTemplates": {"ts": [{"id": i, "scopeLen": 4, "optLen": 4, "scope": [{"typ": 1, "len": 4}], "opts": [{"typ": 2, "len": 4}]}], "pad": ""}}
                dat = lambda i, n: {"data": {"id": i, "recs": [["0000002a"] * n], "pad": ""}}
                tail = [v9m([opt(fresh)]), v9m([tpl(fresh + 1)]), v9m([dat(fresh, 2)]), v9m([dat(fresh + 1, 1)]), v9m([opt(old)]), v9m([tpl(old + 1)]),
                        v9m([dat(old, 2)]), v9m([dat(old + 1, 1)]), v9m([dat(256 + 9, 1)])]
            else:
                def ipm(sets):
                    return {"ipfix": {"m": {"exportTime": 3, "seq": 3, "odid": 1, "sets": sets}}}
                tpl = lambda i: {"templates": {"ts": [{"id": i, "fields": [{"typ": 2, "len": 4, "ent": None}]}], "pad": ""}}
                opt = lambda i: {"optTemplates": {"ts": [{"id": i, "scopeCount": 1, "fields": [{"typ": 1, "len": 4, "ent": None}, {"typ": 2, "len": 4, "ent": None}]}], "pad": ""}}
                dat = lambda i, n: {"data": {"id": i, "recs": [[{"content": "0000002a", "form": "fixed"}] * n], "pad": ""}}
                tail = [ipm([opt(fresh)]), ipm([tpl(fresh + 1)]), ipm([dat(fresh, 2)]), ipm([dat(fresh + 1, 1)]), ipm([opt(old)]), ipm([tpl(old + 1)]),
                        ipm([dat(old, 2)]), ipm([dat(old + 1, 1)])]
            tops = []
            for tm_ in tail:
                ot = op_parse(0, msgs=[tm_], want=["export"])
                ot["nospec"] = True
                tops.append(ot)
            out.append(("extremal-many-%s-%d" % (nm, M), [op_new(0), o, o2] + tops))
    # (d) headers announcing 65535 records / fields over short bodies
    for h in ["0005ffff" + "00" * 20, "0007ffff" + "00" * 20, "0009ffff" + "00" * 16, "000a0014" + "00" * 12 + "0002ffff", "000a0018" + "00" * 12 + "00020008" + "0100ffff",
              "0009000100000000000000000000000000000000" + "00000008" + "0100ffff", "000a001a" + "00" * 12 + "0003000a" + "0100ffffffff"]:
        out.append(("extremal-counts", [op_new(0), op_parse(0, hexs=h, want=["export", "common", "json"])]))
    # (e) many zero-length fields: template with k zero-length string fields and one 1-byte field
    for k in ([50, 1000] if tier == "quick" else [50, 500, 2000, 4000]):
        fs = [{"typ": 82, "len": 0, "ent": None}] * k + [{"typ": 4, "len": 1, "ent": None}]
        t = {"id": 256, "fields": fs}
        tm = {"ipfix": {"m": {"exportTime": 1, "seq": 1, "odid": 1, "sets": [{"templates": {"ts": [t], "pad": ""}}]}}}
        rec = [{"content": "", "form": "fixed"}] * k + [{"content": "01", "form": "fixed"}]
        data = {"ipfix": {"m": {"exportTime": 2, "seq": 2, "odid": 1, "sets": [{"data": {"id": 256, "recs": [rec] * 50, "pad": ""}}]}}}
        out.append(("extremal-zero-length-fields-%d" % k, [op_new(0), op_parse(0, msgs=[tm], want=[]), op_parse(0, msgs=[data], want=["export", "common"])]))
    return out



def fam_all_fields(rng, proto, chunk=12):
    """EVERY field number the library's type table knows (plus a few it does not), each with a width its type accepts, packed
    `chunk` per template, two records each — so that no arm of the generated type tables stays unexercised by the real crate"""
    out = []
    types = V9_TYPES if proto == 9 else IP_TYPES
    nums = sorted(types) + [max(types) + 1, max(types) + 50]
    for base in range(0, len(nums), chunk):
        part = nums[base: base + chunk]
        if proto == 9:
            fields = [{"typ": n, "len": rng.choice(WIDTHS[types.get(n, "unknown")] if types.get(n, "unknown") not in ("str", "vec") else [1, 5])} for n in part]
            t = {"id": 400, "fieldCount": len(fields), "fields": fields}
            tm = {"v9": {"m": {"count": 1, "sysUpTime": 1, "unixSecs": 1, "seq": 1, "sourceId": 1, "sets": [{"templates": {"ts": [t], "pad": ""}}]}}}
            recs = [v9_record(rng, t) for _ in range(2)]
            dm = {"v9": {"m": {"count": 1, "sysUpTime": 2, "unixSecs": 2, "seq": 2, "sourceId": 1, "sets": [{"data": {"id": 400, "recs": recs, "pad": ""}}]}}}
        else:
            fields = [{"typ": n, "len": rng.choice(WIDTHS[types.get(n, "unknown")] if types.get(n, "unknown") not in ("str", "vec") else [1, 5]), "ent": None} for n in part]
            t = {"id": 400, "fields": fields}
            tm = {"ipfix": {"m": {"exportTime": 1, "seq": 1, "odid": 1, "sets": [{"templates": {"ts": [t], "pad": ""}}]}}}
            recs = [ip_record(rng, fields) for _ in range(2)]
            dm = {"ipfix": {"m": {"exportTime": 2, "seq": 2, "odid": 1, "sets": [{"data": {"id": 400, "recs": recs, "pad": ""}}]}}}
        o1, o2 = op_parse(0, msgs=[tm]), op_parse(0, msgs=[dm])
        o1["nospec"] = True
        o2["nospec"] = True
        out.append(("all-fields-%d" % proto, [op_new(0), o1, o2]))
    return out


def fam_proto_values(rng, proto):
    """a protocol-typed field (field 4) carrying every value 0..255, 32 records per data set (decode, name, re-export, JSON)"""
    out = []
    for lo in range(0, 256, 32):
        vals = range(lo, lo + 32)
        if proto == 9:
            t = {"id": 401, "fieldCount": 2, "fields": [{"typ": 4, "len": 1}, {"typ": 1, "len": 4}]}
            tm = {"v9": {"m": {"count": 1, "sysUpTime": 1, "unixSecs": 1, "seq": 1, "sourceId": 1, "sets": [{"templates": {"ts": [t], "pad": ""}}]}}}
            sets = [{"data": {"id": 401, "recs": [["%02x" % v, hx(rbytes(rng, 4))]], "pad": ""}} for v in vals]
            dm = {"v9": {"m": {"count": len(sets), "sysUpTime": 2, "unixSecs": 2, "seq": 2, "sourceId": 1, "sets": sets}}}
        else:
            fields = [{"typ": 4, "len": 1, "ent": None}, {"typ": 1, "len": 4, "ent": None}]
            t = {"id": 401, "fields": fields}
            tm = {"ipfix": {"m": {"exportTime": 1, "seq": 1, "odid": 1, "sets": [{"templates": {"ts": [t], "pad": ""}}]}}}
            sets = [{"data": {"id": 401, "recs": [[{"content": "%02x" % v, "form": "fixed"}, {"content": hx(rbytes(rng, 4)), "form": "fixed"}]], "pad": ""}} for v in vals]
            dm = {"ipfix": {"m": {"exportTime": 2, "seq": 2, "odid": 1, "sets": sets}}}
        o1, o2 = op_parse(0, msgs=[tm]), op_parse(0, msgs=[dm])
        o1["nospec"] = True
        o2["nospec"] = True
        out.append(("proto-values-%d" % proto, [op_new(0), o1, o2]))
    return out

# ------------------------------------------------------------------ structured (abstract-level) field sweep
SWEEP_SMALL = list(range(0, 34))
SWEEP_EDGE = [63, 64, 65, 127, 128, 254, 255, 256, 257, 1023, 1024, 4095, 4096, 32767, 32768, 65534, 65535, 65536, 2 ** 24 - 1, 2 ** 24,
              2 ** 31 - 1, 2 ** 31, 2 ** 32 - 1, 2 ** 32, 2 ** 63, 2 ** 64 - 1]
LIST_KEYS = ("recs", "sets", "ts", "fields", "scope", "opts")


def _int_leaves(x, path, acc):
    if isinstance(x, bool):
        return
    if isinstance(x, int):
        acc.append(path)
    elif isinstance(x, list):
        for i, y in enumerate(x):
            _int_leaves(y, path + (i,), acc)
    elif isinstance(x, dict):
        for k, y in x.items():
            _int_leaves(y, path + (k,), acc)


def _list_leaves(x, path, acc):
    if isinstance(x, list):
        for i, y in enumerate(x):
            _list_leaves(y, path + (i,), acc)
    elif isinstance(x, dict):
        for k, y in x.items():
            if k in LIST_KEYS and isinstance(y, list):
                acc.append(path + (k,))
            _list_leaves(y, path + (k,), acc)


def _get(x, path):
    for k in path:
        x = x[k]
    return x


def _set(x, path, v):
    for k in path[:-1]:
        x = x[k]
    x[path[-1]] = v


def sweep_scenarios(rng, scens, per=1, cap=None):
    """structure-preserving mutation BEFORE encoding: one integer leaf of one abstract message (an id, a count, a length, a
    type number, a header value) is replaced by a value from the sweep pool (every small integer 0..33, powers of two and
    their neighbours, the integer literals of the source and their neighbours), or one list (records, sets, template records,
    fields) is resized to a small length.  The writer recomputes lengths, so the result is still framed correctly and reaches the
    decoders — unlike byte mutations, which mostly die at the framing.  The mutated op is `nospec` (it may be non-conformant)."""
    import copy
    pool = SWEEP_SMALL + SWEEP_SMALL + SWEEP_EDGE + [v + d for v in LITERALS for d in (-1, 0, 1) if v + d >= 0]
    out = []
    std = {"op", "p", "msgs", "hexs", "hex", "want", "nospec"}
    cands = []
    for kind, ops in scens:
        if any(o["op"].startswith("assert_") or o["op"] in ("flat", "fixed_roundtrip") for o in ops):
            continue
        if any(o["op"] == "parse" and (set(o) - std) for o in ops):
            continue
        idxs = [i for i, o in enumerate(ops) if o["op"] == "parse" and o.get("msgs")]
        if idxs:
            cands.append((kind, ops, idxs))
    if cap is not None and len(cands) > cap:
        cands = rng.sample(cands, cap)
    for kind, ops, idxs in cands:
        for _ in range(per):
            new = copy.deepcopy(ops)
            victim = new[rng.choice(idxs)]
            if rng.random() < 0.75:
                leaves = []
                _int_leaves(victim["msgs"], (), leaves)
                if not leaves:
                    continue
                path = rng.choice(leaves)
                _set(victim["msgs"], path, rng.choice(pool))
                tag = "+sweep"
            else:
                lists = []
                _list_leaves(victim["msgs"], (), lists)
                lists = [p for p in lists if _get(victim["msgs"], p)]
                if not lists:
                    continue
                path = rng.choice(lists)
                cur = _get(victim["msgs"], path)
                k = rng.choice(SWEEP_SMALL + [40, 64, 100])
                if rng.random() < 0.6:
                    _set(victim["msgs"], path, [copy.deepcopy(cur[i % len(cur)]) for i in range(k)])
                    tag = "+resize"
                else:
                    # insert a DEGENERATE sibling (every number 0, every list empty, every hex string empty) at a random position:
                    # an all-zero template record between real ones, a set without records, a record without fields …
                    def degenerate(x):
                        if isinstance(x, bool) or x is None:
                            return x
                        if isinstance(x, int):
                            return 0
                        if isinstance(x, str):
                            return x if x in ("fixed", "short", "long") else ""
                        if isinstance(x, list):
                            return []
                        return {kk: degenerate(vv) for kk, vv in x.items()}
                    new_l = list(cur)
                    for _i in range(rng.choice([1, 1, 2])):
                        new_l.insert(rng.randrange(0, len(new_l) + 1), degenerate(copy.deepcopy(rng.choice(cur))))
                    _set(victim["msgs"], path, new_l)
                    tag = "+insert"
            for o in new:
                if o["op"] == "parse":
                    o["nospec"] = True
            out.append((kind + tag, new))
    return out


def fam_scaling(rng, tier):
    """C15 (growth, not constants): the same input SHAPE at size n (parser 0) and k·n (parser 1); the heap bytes requested by the
    last call may grow by at most 1.5·k (+64 KiB).  Shapes stay outside the two known C15 findings (no packet chains, no
    zero-length fields).  `k = 1` cases: the same small message against a cache of size n and of size 4n must cost the same."""
    out = []
    K = 4
    sizes = [60, 150] if tier == "quick" else [60, 150, 400, 1000]

    def v9m(sets):
        return {"v9": {"m": {"count": len(sets), "sysUpTime": 1, "unixSecs": 1, "seq": 1, "sourceId": 1, "sets": sets}}}

    def ipm(sets):
        return {"ipfix": {"m": {"exportTime": 1, "seq": 1, "odid": 1, "sets": sets}}}

    def v9t(i, nf=2):
        return {"id": 256 + i, "fieldCount": nf, "fields": [{"typ": 1 + (j % 20), "len": 4} for j in range(nf)]}

    def v9o(i):
        return {"id": 256 + i, "scopeLen": 4, "optLen": 8, "scope": [{"typ": 1, "len": 4}], "opts": [{"typ": 1, "len": 4}, {"typ": 2, "len": 4}]}

    def ipt(i, nf=2):
        return {"id": 256 + i, "fields": [{"typ": 1 + (j % 20), "len": 4, "ent": None} for j in range(nf)]}

    def ipo(i):
        t = ipt(i, 3)
        t["scopeCount"] = 1
        return t

    def iprec(nf):
        return [{"content": "00000001", "form": "fixed"}] * nf

    shapes = {
        "v9-templates-per-flowset": lambda n: ([], v9m([{"templates": {"ts": [v9t(i) for i in range(n)], "pad": ""}}])),
        "v9-opt-templates-per-flowset": lambda n: ([], v9m([{"optTemplates": {"ts": [v9o(i) for i in range(n)], "pad": ""}}])),
        "v9-template-flowsets": lambda n: ([], v9m([{"templates": {"ts": [v9t(i)], "pad": ""}} for i in range(n)])),
        "v9-redefinitions": lambda n: ([v9m([{"templates": {"ts": [v9t(i) for i in range(n)], "pad": ""}}, {"optTemplates": {"ts": [v9o(i + n) for i in range(n)], "pad": ""}}])],
                                       v9m([{"optTemplates": {"ts": [v9o(i) for i in range(n)], "pad": ""}}, {"templates": {"ts": [v9t(i + n) for i in range(n)], "pad": ""}}])),
        "ipfix-template-sets": lambda n: ([], ipm([{"templates": {"ts": [ipt(i)], "pad": ""}} for i in range(n)])),
        "ipfix-opt-template-sets": lambda n: ([], ipm([{"optTemplates": {"ts": [ipo(i)], "pad": ""}} for i in range(n)])),
        "ipfix-redefinitions": lambda n: ([ipm([{"templates": {"ts": [ipt(i)], "pad": ""}} for i in range(n)])], ipm([{"optTemplates": {"ts": [ipo(i)], "pad": ""}} for i in range(n)])),
        "v9-records": lambda n: ([v9m([{"templates": {"ts": [v9t(0, 3)], "pad": ""}}])], v9m([{"data": {"id": 256, "recs": [["00000001"] * 3] * n, "pad": ""}}])),
        "ipfix-records": lambda n: ([ipm([{"templates": {"ts": [ipt(0, 3)], "pad": ""}}])], ipm([{"data": {"id": 256, "recs": [iprec(3)] * n, "pad": ""}}])),
        "ipfix-opt-records": lambda n: ([ipm([{"optTemplates": {"ts": [ipo(0)], "pad": ""}}])], ipm([{"data": {"id": 256, "recs": [iprec(3)] * n, "pad": ""}}])),
        "v9-data-flowsets": lambda n: ([v9m([{"templates": {"ts": [v9t(0, 3)], "pad": ""}}])], v9m([{"data": {"id": 256, "recs": [["00000001"] * 3], "pad": ""}}] * n)),
        "ipfix-data-sets": lambda n: ([ipm([{"templates": {"ts": [ipt(0, 3)], "pad": ""}}])], ipm([{"data": {"id": 256, "recs": [iprec(3)], "pad": ""}}] * n)),
        "v9-fields-per-template": lambda n: ([v9m([{"templates": {"ts": [v9t(0, n)], "pad": ""}}])], v9m([{"data": {"id": 256, "recs": [["00000001"] * n] * 3, "pad": ""}}])),
        "ipfix-fields-per-template": lambda n: ([ipm([{"templates": {"ts": [ipt(0, n)], "pad": ""}}])], ipm([{"data": {"id": 256, "recs": [iprec(n)] * 3, "pad": ""}}])),
        "v9-wide-template-definition": lambda n: ([], v9m([{"templates": {"ts": [v9t(0, n)], "pad": ""}}])),
        "ipfix-wide-template-definition": lambda n: ([], ipm([{"templates": {"ts": [ipt(0, n)], "pad": ""}}])),
        "v5-records": lambda n: ([], msg_v5(rng, n)),
        "v7-records": lambda n: ([], msg_v7(rng, n)),
    }
    for name, mk in shapes.items():
        for n in sizes:
            ops = [op_new(0), op_new(1)]
            for pid, m in ((0, n), (1, K * n)):
                setup, last = mk(m)
                for s in setup:
                    o = op_parse(pid, msgs=[s], want=[]); o["nospec"] = True; ops.append(o)
                o = op_parse(pid, msgs=[last], want=["alloc"]); o["nospec"] = True; ops.append(o)
            ops.append({"op": "assert_scale", "a": 0, "b": 1, "k": K})
            out.append(("scale-%s-%d" % (name, n), ops))
    # k = 1: identical small messages against caches of very different sizes
    small9 = v9m([{"data": {"id": 256, "recs": [["00000001", "00000002"]], "pad": ""}}, {"data": {"id": 256 + 5000, "recs": [["00000001", "00000002", "00000003"]], "pad": ""}}])
    small10 = ipm([{"data": {"id": 256, "recs": [iprec(2)], "pad": ""}}, {"data": {"id": 256 + 5000, "recs": [iprec(3)], "pad": ""}}])
    for n in ([300] if tier == "quick" else [300, 800]):
        ops = [op_new(0), op_new(1)]
        for pid, m in ((0, n), (1, 8 * n)):
            for base in range(0, m, 100):
                ids = range(base, min(base + 100, m))
                o = op_parse(pid, msgs=[v9m([{"templates": {"ts": [v9t(i) for i in ids], "pad": ""}}, {"optTemplates": {"ts": [v9o(5000 + i) for i in ids], "pad": ""}}]),
                                        ipm([{"templates": {"ts": [ipt(i)], "pad": ""}} for i in ids] + [{"optTemplates": {"ts": [ipo(5000 + i)], "pad": ""}} for i in ids])], want=[])
                o["nospec"] = True
                ops.append(o)
            o = op_parse(pid, msgs=[small9, small10], want=["alloc"]); o["nospec"] = True; ops.append(o)
        ops.append({"op": "assert_scale", "a": 0, "b": 1, "k": 1})
        out.append(("scale-cache-%d" % n, ops))
    return out



def api_noise_scenarios(rng, scens, cap=150):
    """history-level mutations that leave every single call meaningful: (a) the caller CHANGES the public allowed set between
    two calls (widen / narrow / replace / empty / back to the default) — ops become `nospec`, the model follows the set;
    (b) two independent scenarios INTERLEAVED call by call on disjoint parser ids (plus one shared thread in the harness):
    nothing one parser instance learns may show in another."""
    import copy
    out = []
    std = {"op", "p", "msgs", "hexs", "hex", "want", "nospec"}
    plain = [(k, ops) for k, ops in scens
             if not any(o["op"].startswith("assert_") or o["op"] in ("flat", "fixed_roundtrip", "allowed", "forget", "adopt") for o in ops)
             and not any(o["op"] == "parse" and (set(o) - std) for o in ops)
             and all(o["op"] in ("new", "parse") for o in ops)]
    multi = [(k, ops) for k, ops in plain if sum(1 for o in ops if o["op"] == "parse") >= 2]
    for kind, ops in (rng.sample(multi, min(cap, len(multi))) if multi else []):
        new = copy.deepcopy(ops)
        idxs = [i for i, o in enumerate(new) if o["op"] == "parse"][1:]
        res, changed = [], False
        for i, o in enumerate(new):
            if i in idxs and rng.random() < 0.5:
                S = rng.choice([[5, 7, 9, 10], [v for v in (5, 7, 9, 10) if rng.random() < 0.5], [], [rng.choice([5, 7, 9, 10])], [9, 10], [5, 7]]) + extra_versions(rng, 0.15)
                res.append({"op": "allowed", "p": o["p"], "set": S})
                changed = True
            res.append(o)
        if not changed:
            continue
        for o in res:
            if o["op"] == "parse":
                o["nospec"] = True
        out.append((kind + "+allowed", res))
    pairs = min(cap, len(plain) // 2)
    pool = rng.sample(plain, 2 * pairs) if pairs else []
    for j in range(pairs):
        (k1, a), (k2, b) = pool[2 * j], pool[2 * j + 1]
        a, b = copy.deepcopy(a), copy.deepcopy(b)
        for o in b:
            if "p" in o:
                o["p"] = o["p"] + 10
        res, ia, ib = [], 0, 0
        while ia < len(a) or ib < len(b):
            if ib >= len(b) or (ia < len(a) and rng.random() < 0.5):
                res.append(a[ia]); ia += 1
            else:
                res.append(b[ib]); ib += 1
        out.append((k1 + "+interleaved", res))
    return out


def mutate_hex(rng, h):
    b = bytearray(bytes.fromhex(h))
    if not b:
        return "00"
    kind = rng.choice(["trunc", "trunc", "flip", "len", "len", "splice", "extend", "zero"])
    if kind == "trunc":
        return hx(b[: rng.randrange(0, len(b))])
    if kind == "flip":
        for _ in range(rng.choice([1, 1, 2, 4])):
            i = rng.randrange(len(b))
            b[i] ^= 1 << rng.randrange(8)
        return hx(b)
    if kind == "len":
        # overwrite some 16-bit aligned word with an interesting value
        i = rng.randrange(0, max(1, len(b) - 1)) & ~1
        v = rng.choice([0, 1, 2, 3, 4, 5, 16, 255, 256, 0x7fff, 0x8000, 0xffff, len(b), len(b) + 1, max(0, len(b) - 1)])
        b[i: i + 2] = (v & 0xFFFF).to_bytes(2, "big")      # buffers above 64 KiB exist (resized lists): keep the word in range
        return hx(b)
    if kind == "splice":
        i, j = sorted([rng.randrange(len(b)), rng.randrange(len(b))])
        return hx(b[:i] + b[j:])
    if kind == "extend":
        return hx(b + rbytes(rng, rng.choice([1, 2, 3, 4, 17])))
    i = rng.randrange(len(b))
    b[i] = 0
    return hx(b)


def mutate_scenarios(rng, encoded, per=2):
    """encoded: scenarios whose parse ops already carry hex.  Returns mutated copies (raw hex ops)."""
    out = []
    for kind, ops in encoded:
        if any(o["op"].startswith("assert_") or o["op"] == "flat" for o in ops):
            continue
        for _ in range(per):
            new = []
            idxs = [i for i, o in enumerate(ops) if o["op"] == "parse"]
            if not idxs:
                continue
            victim = rng.choice(idxs)
            for i, o in enumerate(ops):
                if o["op"] == "parse":
                    h = o["hex"]
                    if i == victim:
                        try:
                            h = mutate_hex(rng, h)
                        except (OverflowError, ValueError, IndexError):
                            pass                       # a mutation that cannot be expressed leaves the input as it is
                    new.append({"op": "parse", "p": o["p"], "hex": h, "want": o.get("want", WANT_ALL)})
                else:
                    new.append(o)
            out.append((kind + "+mut", new))
    return out


def fam_garbage(rng, n):
    out = []
    for _ in range(n):
        ln = rng.choice([0, 1, 2, 3, 4, 7, 16, 19, 20, 24, 25, 40, 72, 100])
        b = bytearray(rbytes(rng, ln, "rand"))
        if ln >= 2 and rng.random() < 0.8:
            b[0:2] = rng.choice([5, 7, 9, 10, 10, 9, 0, 6, 11, 0xffff]).to_bytes(2, "big")
        out.append(("garbage", [op_new(0), op_parse(0, hexs=hx(b))]))
    return out


def scenarios_to_ops(scens):
    ops = []
    for i, (kind, s) in enumerate(scens):
        ops.append({"op": "scenario", "kind": kind, "sid": i})
        ops.extend(s)
    return ops


if __name__ == "__main__":
    import sys
    rng = random.Random(int(os.environ.get("VERIF_SEED", "1")))
    sc = fam_fixed(rng, 5) + fam_stream(rng, 10) + fam_garbage(rng, 5)
    for o in scenarios_to_ops(sc):
        print(json.dumps(o))
