#!/usr/bin/env python3
"""coverage.py — which lines of /repo/src do the generated operation sequences actually execute?

NOT a check and NOT a proof: a measurement of the correspondence run's reach (DESIGN §12.8).  It rebuilds the harness
with LLVM source-based coverage (nightly toolchain: the only one with llvm-tools here), replays the `main.ops` files that
the last `check.py` runs left in work/<Cnn>-<tier>/, and writes
    work/coverage/summary.json     per-file line/region coverage of the library (tests and snapshots excluded)
    work/coverage/uncovered.txt    every executable library line that no generated operation reached, with its source text
A line listed there is a place where a change could hide from the correspondence run (the theorems do not depend on it,
but the TIE of the hand-written model parts to the code does), i.e. a to-do list for the generators.

usage: python3 tools/coverage.py [Cnn ...]      (default: every work/*-quick/main.ops that exists)
"""
import glob, json, os, re, subprocess, sys

VERIF = os.path.dirname(os.path.dirname(os.path.abspath(__file__)))
sys.path.insert(0, os.path.join(VERIF, "tools"))
import runner  # noqa: E402

NIGHTLY = "nightly"


def toolbin(name):
    out = subprocess.run(["rustc", "+" + NIGHTLY, "--print", "sysroot"], stdout=subprocess.PIPE, text=True, env=runner.ENV).stdout.strip()
    for p in glob.glob(os.path.join(out, "lib", "rustlib", "*", "bin", name)):
        return p
    return None


def main():
    props = sys.argv[1:]
    prof, cov = toolbin("llvm-profdata"), toolbin("llvm-cov")
    if not prof or not cov:
        print("coverage.py: llvm-tools of the nightly toolchain not found")
        return 2
    outdir = os.path.join(VERIF, "work", "coverage")
    os.makedirs(outdir, exist_ok=True)
    for f in glob.glob(os.path.join(outdir, "*.profraw")):
        os.remove(f)
    # the harness, instrumented (own target directory; the path dependency is whatever runner.REPO says)
    cargo_toml = os.path.join(runner.HARNESS, "Cargo.toml")
    txt = open(cargo_toml).read()
    new = re.sub(r'netflow_parser = \{ path = "[^"]*"', 'netflow_parser = { path = "%s"' % runner.REPO, txt)
    if new != txt:
        open(cargo_toml, "w").write(new)
    tdir = os.path.join(runner.HARNESS, "target-cov")
    # build scripts and proc macros are instrumented too and would drop default_*.profraw into their package directory
    # (that is /repo for the crate itself): send those profiles to the scratch directory instead
    env = dict(runner.ENV, RUSTFLAGS="-C instrument-coverage", CARGO_TARGET_DIR=tdir, LLVM_PROFILE_FILE=os.path.join(outdir, "build-%p-%m.profraw"))
    rc, out = runner.sh(["cargo", "+" + NIGHTLY, "build", "--offline", "--release"], cwd=runner.HARNESS, env=env, timeout=1800)
    if rc != 0:
        print("coverage.py: instrumented build failed\n" + out[-2000:])
        return 2
    binp = os.path.join(tdir, "release", "nfh")
    for f in glob.glob(os.path.join(outdir, "build-*.profraw")):
        os.remove(f)
    files = []
    if props:
        for p in props:
            files += glob.glob(os.path.join(VERIF, "work", p + "-*", "main.ops"))
    else:
        files = sorted(glob.glob(os.path.join(VERIF, "work", "*-quick", "main.ops")))
    if not files:
        print("coverage.py: no work/*/main.ops — run the checks first")
        return 2
    for i, f in enumerate(files):
        e = dict(runner.ENV, LLVM_PROFILE_FILE=os.path.join(outdir, "run%d-%%p.profraw" % i))
        saved = runner.ENV
        runner.ENV = e
        try:
            runner.run_harness(binp, f, os.path.join(outdir, "answers.tmp"))
        finally:
            runner.ENV = saved
    raws = glob.glob(os.path.join(outdir, "*.profraw"))
    merged = os.path.join(outdir, "merged.profdata")
    subprocess.run([prof, "merge", "-sparse", "-o", merged] + raws, check=True)
    src = os.path.join(runner.REPO, "src")
    ignore = r"(\.cargo|rustc|harness/src|/tests\.rs|tests/)"
    rep = subprocess.run([cov, "export", "-format=text", "-instr-profile=" + merged, binp, "-ignore-filename-regex=" + ignore, "-summary-only"],
                         stdout=subprocess.PIPE, text=True).stdout
    summary = {}
    try:
        j = json.loads(rep)
        for fdesc in j["data"][0]["files"]:
            fn = fdesc["filename"]
            if not fn.startswith(src):
                continue
            s = fdesc["summary"]
            summary[os.path.relpath(fn, src)] = {"lines": s["lines"]["count"], "lines_covered": s["lines"]["covered"],
                                                 "regions": s["regions"]["count"], "regions_covered": s["regions"]["covered"]}
    except Exception as ex:
        print("coverage.py: cannot read llvm-cov export:", ex)
    show = subprocess.run([cov, "show", "-instr-profile=" + merged, binp, "-ignore-filename-regex=" + ignore, "-show-line-counts-or-regions=false"],
                          stdout=subprocess.PIPE, text=True).stdout
    unc, cur, in_tests = [], None, False
    for line in show.splitlines():
        if line.startswith("/") and line.rstrip().endswith(":"):
            cur = line.rstrip()[:-1]
            in_tests = False
            continue
        m = re.match(r"\s*(\d+)\|\s*([0-9.kMG]*)\|(.*)", line)
        if not m or cur is None or not cur.startswith(src):
            continue
        text = m.group(3)
        if re.search(r"#\[cfg\(test\)\]", text):
            in_tests = True
        if in_tests:
            continue
        if m.group(2) == "0":
            unc.append("%s:%s: %s" % (os.path.relpath(cur, src), m.group(1), text.rstrip()))
    with open(os.path.join(outdir, "uncovered.txt"), "w") as f:
        f.write("\n".join(unc) + "\n")
    tot = sum(v["lines"] for v in summary.values()) or 1
    covd = sum(v["lines_covered"] for v in summary.values())
    json.dump({"files": summary, "ops_files": [os.path.relpath(x, VERIF) for x in files], "lines": tot, "lines_covered": covd,
               "uncovered_listed": len(unc)}, open(os.path.join(outdir, "summary.json"), "w"), indent=1)
    for f in raws:
        os.remove(f)
    print("coverage: %d/%d library lines executed by %d ops files; %d uncovered lines listed in work/coverage/uncovered.txt" % (covd, tot, len(files), len(unc)))
    return 0


if __name__ == "__main__":
    sys.exit(main())
