#!/usr/bin/env python3
"""mutation_report.py — writes /verif/seeded/MUTATION.md from /tmp/mut/{mutants,survivors,killed}.json (tools/mutate.py)."""
import json, collections
muts = json.load(open('/tmp/mut/mutants.json'))
sv = json.load(open('/tmp/mut/survivors.json'))
killed = json.load(open('/tmp/mut/killed.json'))
st = collections.Counter(sv['status'].values())
TRIAGE = {
 ("src/variable_versions/ipfix.rs", 201): "EQUIVALENT: an IPFIX set whose length field is below 4 has an empty body with `saturating_sub` and an unsatisfiable `take(65532+)` with `wrapping_sub`; a set with an empty body can never decode (templates need fields, data needs a record of a valid template), so the set loop stops at it either way and nothing observable differs",
 ("src/variable_versions/ipfix.rs", 254): "REAL GAP, closed: the sum only wraps when scope_field_count + field_count >= 65536; the wild exporter now draws scope counts 65535, 65536 - n, 65537 - n (re-run: C10 reports a concrete replay, C05 a correspondence break)",
 ("src/variable_versions/ipfix.rs", 337): "EQUIVALENT: `remaining.len() - i.len()` on usize cannot underflow (i is a suffix of remaining)",
 ("src/variable_versions/ipfix.rs", 340): "EQUIVALENT: a usize sum of consumed byte counts cannot overflow",
}
L = ["# First-order mutants (tools/mutate.py)", "",
     "Operators: relational, logical, `+`/`-`, integer literal ±1, `saturating_*` → `wrapping_*`, boolean flip, deletion of a bare method-call statement;",
     "files: lib.rs, static_versions/v5.rs, v7.rs, variable_versions/v9.rs, ipfix.rs, data_number.rs (tables, tests, comments and `use` lines excluded).", "",
     "| | count |", "|---|---|", "| mutants generated | %d |" % len(muts), "| do not build (either feature configuration) | %d |" % (st.get('no-build', 0) + st.get('no-build-nouf', 0)),
     "| killed by the crate's own 45 tests | %d |" % st.get('killed-by-tests', 0), "| SURVIVE the crate's tests | %d |" % st.get('survived', 0),
     "| survivors run against the quick checks selected by file | %d |" % len(killed),
     "| … reported (VIOLATION) by at least one of them | %d |" % sum(1 for v in killed.values() if 'ALARM' in v['result']),
     "| … quiet | %d |" % sum(1 for v in killed.values() if 'ALARM' not in v['result']), "",
     "## Quiet survivors and their triage", ""]
for v in killed.values():
    if 'ALARM' in v['result']:
        continue
    m = v['mutant']
    L.append("* `%s:%d` %s — `%s`  \n  %s" % (m['file'], m['line'], m['op'], m['before'][:100], TRIAGE.get((m['file'], m['line']), "not triaged")))
L += ["", "## Survivors killed by the checks", ""]
for v in killed.values():
    if 'ALARM' in v['result']:
        m = v['mutant']
        L.append("* `%s:%d` %s — `%s` → %s" % (m['file'].split('/')[-1], m['line'], m['op'], m['before'][:70], v['result'].replace('PARTEST ', '').split(':', 1)[1].strip()))
open('/verif/seeded/MUTATION.md', 'w').write("\n".join(L) + "\n")
print("\n".join(L[:22]))
