#!/usr/bin/env python3
"""mutate.py — systematic first-order mutants of the library (maintenance tool; never part of a registered command).

    mutate.py gen                      -> /tmp/mut/mutants.json  (operator, file, line, before, after)
    mutate.py survive [-j N]           -> builds + runs the 45 lib tests on every mutant in scratch copies; survivors.json
    mutate.py kill [-j N]              -> runs the property checks selected by file on every survivor (tools/partest.sh); killed.json

Operators: relational (< <= > >= == !=), logical (&& ||), arithmetic (+ -), integer literal +1/-1, saturating_* -> wrapping_*,
boolean literal flip, deletion of a statement line that is a bare method call.  Tables (protocol.rs, *_lookup.rs), tests, doc comments and
`use` lines are not mutated.  Equivalent mutants are possible: a quiet survivor is a candidate for triage, not automatically a miss."""
import json, os, re, subprocess, sys, shutil, hashlib
from concurrent.futures import ThreadPoolExecutor

REPO = "/repo"
OUT = "/tmp/mut"
FILES = ["src/lib.rs", "src/variable_versions/v9.rs", "src/variable_versions/ipfix.rs", "src/variable_versions/data_number.rs",
         "src/netflow_common.rs", "src/static_versions/v5.rs", "src/static_versions/v7.rs"]
CHECKS = {
    "src/lib.rs": ["C02", "C11", "C12", "C14", "C13"],
    "src/variable_versions/v9.rs": ["C04", "C06", "C09", "C07", "C15"],
    "src/variable_versions/ipfix.rs": ["C05", "C06", "C10", "C07", "C15"],
    "src/variable_versions/data_number.rs": ["C04", "C05", "C09", "C13", "C16", "C17"],
    "src/netflow_common.rs": ["C13"],
    "src/static_versions/v5.rs": ["C03", "C08", "C14"],
    "src/static_versions/v7.rs": ["C03", "C08", "C14"],
}

REL = [(" < ", " <= "), (" <= ", " < "), (" > ", " >= "), (" >= ", " > "), (" == ", " != "), (" != ", " == ")]
OTHER = [(" && ", " || "), (" || ", " && "), (" + ", " - "), (" - ", " + "), ("saturating_sub", "wrapping_sub"), ("saturating_add", "wrapping_add"),
         ("true", "false"), ("false", "true")]


def code_lines(path):
    txt = open(os.path.join(REPO, path)).read().split("\n")
    out = []
    in_tests = False
    for i, l in enumerate(txt):
        s = l.strip()
        if s.startswith("#[cfg(test)]"):
            in_tests = True
        if in_tests:
            continue
        if not s or s.startswith("//") or s.startswith("use ") or s.startswith("pub use ") or s.startswith("#[derive") or s.startswith("#[serde") or s.startswith("mod ") or s.startswith("pub mod "):
            continue
        out.append((i, l))
    return txt, out


def gen():
    muts = []
    for f in FILES:
        txt, lines = code_lines(f)
        for i, l in lines:
            code = l.split("//")[0]
            seen = set()

            def add(op, new):
                if new != l and new not in seen:
                    seen.add(new)
                    muts.append({"file": f, "line": i + 1, "op": op, "before": l.strip(), "after": new.strip(), "new_line": new})
            for a, b in REL + OTHER:
                start = 0
                while True:
                    k = code.find(a, start)
                    if k < 0:
                        break
                    if a in ("true", "false") and (re.match(r"\w", code[k - 1:k] or " ") or re.match(r"\w", code[k + len(a):k + len(a) + 1] or " ")):
                        start = k + 1
                        continue
                    add("%s->%s" % (a.strip(), b.strip()), l[:k] + b + l[k + len(a):])
                    start = k + 1
            for m in re.finditer(r"(?<![\w.\"])(\d+)(?![\w.])", code):
                v = int(m.group(1))
                if v > 70000:
                    continue
                for d in (1, -1):
                    if v + d < 0:
                        continue
                    add("lit%+d" % d, l[:m.start(1)] + str(v + d) + l[m.end(1):])
            s = code.strip()
            if re.fullmatch(r"[\w.]+\.(remove|insert|extend|push|extend_from_slice|append)\(.*\);", s):
                add("delete-stmt", re.match(r"\s*", l).group(0) + "// deleted")
    os.makedirs(OUT, exist_ok=True)
    for k, m in enumerate(muts):
        m["id"] = k
    json.dump(muts, open(os.path.join(OUT, "mutants.json"), "w"), indent=0)
    print(len(muts), "mutants")


def apply(root, m):
    p = os.path.join(root, m["file"])
    txt = open(p).read().split("\n")
    txt[m["line"] - 1] = m["new_line"]
    open(p, "w").write("\n".join(txt))


def worker_dir(w):
    d = os.path.join(OUT, "w%d" % w)
    if not os.path.isdir(d):
        subprocess.run(["git", "-C", REPO, "worktree", "add", "-q", "--detach", d, "HEAD"], check=True)
    return d


def survive(jobs):
    muts = json.load(open(os.path.join(OUT, "mutants.json")))
    env = dict(os.environ, CARGO_NET_OFFLINE="true")
    res = {}

    def run(w, chunk):
        d = worker_dir(w)
        for m in chunk:
            subprocess.run(["git", "-C", d, "checkout", "-q", "--", "src"])
            apply(d, m)
            b = subprocess.run(["cargo", "build", "--offline", "--lib", "-q"], cwd=d, env=env, capture_output=True, text=True)
            if b.returncode != 0:
                res[m["id"]] = "no-build"
                continue
            b2 = subprocess.run(["cargo", "build", "--offline", "--lib", "-q", "--no-default-features"], cwd=d, env=env, capture_output=True, text=True)
            if b2.returncode != 0:
                res[m["id"]] = "no-build-nouf"
                continue
            try:
                t = subprocess.run(["cargo", "test", "--offline", "--lib", "-q"], cwd=d, env=env, capture_output=True, text=True, timeout=180)
                res[m["id"]] = "survived" if t.returncode == 0 else "killed-by-tests"
            except subprocess.TimeoutExpired:
                res[m["id"]] = "killed-by-tests"
        subprocess.run(["git", "-C", d, "checkout", "-q", "--", "src"])
    chunks = [muts[w::jobs] for w in range(jobs)]
    with ThreadPoolExecutor(jobs) as ex:
        list(ex.map(lambda a: run(*a), enumerate(chunks)))
    surv = [m for m in muts if res.get(m["id"]) == "survived"]
    json.dump({"status": res, "survivors": surv}, open(os.path.join(OUT, "survivors.json"), "w"), indent=0)
    from collections import Counter
    print(Counter(res.values()))
    for w in range(jobs):
        subprocess.run(["git", "-C", REPO, "worktree", "remove", "--force", os.path.join(OUT, "w%d" % w)])


def kill(jobs):
    surv = json.load(open(os.path.join(OUT, "survivors.json")))["survivors"]
    done_p = os.path.join(OUT, "killed.json")
    done = json.load(open(done_p)) if os.path.exists(done_p) else {}

    def run(m):
        key = str(m["id"])
        if key in done:
            return
        d = os.path.join(OUT, "p%d" % m["id"])
        os.makedirs(d, exist_ok=True)
        # a patch file for partest
        tmp = os.path.join(d, "repo")
        subprocess.run(["git", "-C", REPO, "worktree", "add", "-q", "--detach", tmp, "HEAD"], check=True)
        apply(tmp, m)
        diff = subprocess.run(["git", "-C", tmp, "diff", "--", "src"], capture_output=True, text=True).stdout
        open(os.path.join(d, "m.diff"), "w").write(diff)
        subprocess.run(["git", "-C", REPO, "worktree", "remove", "--force", tmp])
        r = subprocess.run(["bash", "/verif/tools/partest.sh", "mut%d" % m["id"], os.path.join(d, "m.diff")] + CHECKS[m["file"]], capture_output=True, text=True)
        line = [l for l in r.stdout.splitlines() if l.startswith("PARTEST")]
        done[key] = {"mutant": {k: m[k] for k in ("file", "line", "op", "before", "after")}, "result": line[0] if line else "ERROR " + r.stdout[-300:]}
        json.dump(done, open(done_p, "w"), indent=0)
        shutil.rmtree(d, ignore_errors=True)
    with ThreadPoolExecutor(jobs) as ex:
        list(ex.map(run, surv))
    quiet = [v for v in done.values() if "ALARM" not in v["result"]]
    print("survivors: %d, killed by the checks: %d, quiet: %d" % (len(done), len(done) - len(quiet), len(quiet)))
    for v in quiet:
        print("QUIET", v["mutant"]["file"], v["mutant"]["line"], v["mutant"]["op"], "|", v["mutant"]["before"][:90])


if __name__ == "__main__":
    cmd = sys.argv[1]
    jobs = int(sys.argv[sys.argv.index("-j") + 1]) if "-j" in sys.argv else 6
    {"gen": gen, "survive": lambda: survive(jobs), "kill": lambda: kill(jobs)}[cmd]()
