#!/bin/bash
# usage: thorough.sh C01 C02 ...   (run from a snapshot of /verif)
python3 tools/translate.py > /dev/null
(cd lean && lake build nfdriver NetflowModel.Props.All 2>&1 | tail -1)
(cd harness && CARGO_NET_OFFLINE=true cargo build --release --offline 2>&1 | tail -1)
for p in "$@"; do
  s=$(date +%s)
  python3 check.py $p --tier thorough > out_$p.log 2>&1
  echo "THOROUGH $p rc=$? $(( $(date +%s)-s ))s  $(grep -c VIOLATION out_$p.log) violations"
  grep VIOLATION out_$p.log | head -3
done
