#!/usr/bin/env python3
"""translate_export.py — `V9::to_be_bytes` and `IPFix::to_be_bytes` translated statement by statement into the `Emit`
programs of lean/NetflowModel/ExportProg.lean (GeneratedExport.lean).

Recognised statements (comments stripped; anything else raises Unrecognised -> snapshot fallback, DESIGN §1.2):
    let mut SINK = vec![];                                   a sink (`result`, `result_flowset`)
    SINK.extend_from_slice(&PATH.to_be_bytes());             Emit.num  PATH  (width of PATH's declared integer type)
    SINK.extend_from_slice(&PATH.to_be_bytes()?);            Emit.value PATH (PATH : FieldValue)
    SINK.extend_from_slice(&PATH);  /  (PATH.as_slice())     Emit.bytes PATH (PATH : Vec<u8>)
    for X in PATH.iter() { … }  /  for X in &PATH { … }      Emit.each
    for (_, (_, X)) in PATH.iter() { … }                     Emit.each over the values of a record map (BTreeMap: key order)
    if let Enum::Variant(X) = &PATH { … }                    Emit.whenVariant
    if let Some(X) = PATH { … }                              Emit.whenSome
    match PATH { E::A(p) => { SINK.extend_from_slice(p.as_slice()) } … }   Emit.payload (every variant, each emitting its payload)
    result.append(&mut SINK2);                               the secondary sink is flushed: accepted only when nothing was written
                                                             to `result` since SINK2 was created (so one sink is equivalent)
    Ok(result)
Types: a small inference over the `pub struct` / `pub enum` / `type` declarations of the same file gives every PATH its declared
Rust type; integer widths come from there, never from this file.
"""
import re


class Unrecognised(Exception):
    pass


INT_W = {"u8": 1, "u16": 2, "u32": 4, "u64": 8, "u128": 16}


def strip_attrs(s):
    # remove #[...] attributes (may contain nested brackets and strings)
    out, i = [], 0
    while i < len(s):
        if s.startswith("#[", i):
            depth, j, instr = 0, i + 1, False
            while j < len(s):
                ch = s[j]
                if instr:
                    if ch == "\\":
                        j += 1
                    elif ch == '"':
                        instr = False
                elif ch == '"':
                    instr = True
                elif ch == "[":
                    depth += 1
                elif ch == "]":
                    depth -= 1
                    if depth == 0:
                        break
                j += 1
            i = j + 1
        else:
            out.append(s[i])
            i += 1
    return "".join(out)


def block(s, i):
    """s[i] == '{' -> (inner text, index after the closing brace)"""
    depth = 0
    for j in range(i, len(s)):
        if s[j] == "{":
            depth += 1
        elif s[j] == "}":
            depth -= 1
            if depth == 0:
                return s[i + 1:j], j + 1
    raise Unrecognised("unbalanced braces")


def split_top(s, sep=","):
    parts, depth, cur = [], 0, ""
    for ch in s:
        if ch in "(<[{":
            depth += 1
        elif ch in ")>]}":
            depth -= 1
        if ch == sep and depth == 0:
            parts.append(cur)
            cur = ""
        else:
            cur += ch
    if cur.strip():
        parts.append(cur)
    return [p.strip() for p in parts if p.strip()]


def declarations(src):
    """structs: name -> {field: type}; enums: name -> {variant: payload type}; aliases: name -> type"""
    src = strip_attrs(src)
    structs, enums, aliases = {}, {}, {}
    for m in re.finditer(r"\bpub\s+struct\s+(\w+)\s*\{", src):
        body, _ = block(src, m.end() - 1)
        fs = {}
        for item in split_top(body):
            mm = re.fullmatch(r"(?:pub\s+)?(\w+)\s*:\s*(.+)", item, flags=re.S)
            if not mm:
                raise Unrecognised("struct %s: field %r" % (m.group(1), item[:40]))
            fs[mm.group(1)] = re.sub(r"\s+", "", mm.group(2))
        structs[m.group(1)] = fs
    for m in re.finditer(r"\bpub\s+enum\s+(\w+)\s*\{", src):
        body, _ = block(src, m.end() - 1)
        vs = {}
        for item in split_top(body):
            mm = re.fullmatch(r"(\w+)\s*\((.+)\)", item, flags=re.S)
            if mm:
                vs[mm.group(1)] = re.sub(r"\s+", "", mm.group(2))
            elif re.fullmatch(r"\w+(\s*=\s*\d+)?", item):
                vs[item.split("=")[0].strip()] = None
            else:
                raise Unrecognised("enum %s: variant %r" % (m.group(1), item[:40]))
        enums[m.group(1)] = vs
    for m in re.finditer(r"\b(?:pub\s+)?type\s+(\w+)\s*=\s*([^;]+);", src):
        aliases[m.group(1)] = re.sub(r"\s+", "", m.group(2))
    return structs, enums, aliases


class Tr:
    def __init__(self, src, self_ty):
        self.structs, self.enums, self.aliases = declarations(src)
        self.self_ty = self_ty

    def resolve(self, ty):
        seen = 0
        while ty in self.aliases and seen < 10:
            ty = self.aliases[ty]
            seen += 1
        return ty

    def path_type(self, env, path):
        if path[0] not in env:
            raise Unrecognised("unbound name %s" % path[0])
        ty = self.resolve(env[path[0]])
        for f in path[1:]:
            ty = ty.lstrip("&")
            if ty not in self.structs or f not in self.structs[ty]:
                raise Unrecognised("no field %s in %s" % (f, ty))
            ty = self.resolve(self.structs[ty][f])
        return ty

    @staticmethod
    def elem(ty, what):
        m = re.fullmatch(r"Vec<(.+)>", ty)
        if not m:
            raise Unrecognised("%s: %s is not a Vec" % (what, ty))
        return m.group(1)

    def stmts(self, text, env, sinks, state):
        """one block: the secondary sink must be flushed in the block that created it (a flush at another nesting depth — inside a
        conditional, or after the loop body that created it ended — is not equivalent to writing to one sink)"""
        state["depth"] = state.get("depth", 0) + 1
        try:
            out = self._stmts(text, env, sinks, state)
            if state.get("secondary") and state.get("secondary_depth") == state["depth"]:
                raise Unrecognised("secondary sink %s not flushed in the block that created it" % state["secondary"])
            return out
        finally:
            state["depth"] -= 1

    def _stmts(self, text, env, sinks, state):
        """-> list of Emit terms (python tuples).  state['dirty'] tracks writes to the primary sink after a secondary sink exists"""
        out = []
        i = 0
        text = text.strip()
        while i < len(text):
            rest = text[i:]
            if not rest.strip():
                break
            lead = len(rest) - len(rest.lstrip())
            i += lead
            rest = text[i:]
            m = re.match(r"let\s+mut\s+(\w+)\s*=\s*vec!\[\]\s*;", rest)
            if m:
                if sinks and state.get("secondary"):
                    raise Unrecognised("more than one secondary sink")
                if m.group(1) in sinks:
                    raise Unrecognised("sink %s declared twice" % m.group(1))
                if sinks:
                    state["secondary"] = m.group(1)
                    state["secondary_depth"] = state["depth"]
                    state["dirty"] = False
                sinks.add(m.group(1))
                i += m.end()
                continue
            m = re.match(r"(\w+)\s*\.\s*append\s*\(\s*&mut\s+(\w+)\s*\)\s*;", rest)
            if m:
                if m.group(1) not in sinks or m.group(2) != state.get("secondary") or state.get("dirty") or state.get("secondary_depth") != state["depth"]:
                    raise Unrecognised("append of a sink that is not flush-equivalent")
                state["secondary"] = None
                sinks.discard(m.group(2))
                i += m.end()
                continue
            m = re.match(r"(\w+)\s*\.\s*extend_from_slice\s*\(", rest)
            if m:
                if m.group(1) not in sinks:
                    raise Unrecognised("write to unknown sink %s" % m.group(1))
                if state.get("secondary") and m.group(1) != state["secondary"]:
                    state["dirty"] = True
                # argument up to the matching parenthesis
                depth, j = 0, m.end() - 1
                for j in range(m.end() - 1, len(rest)):
                    if rest[j] == "(":
                        depth += 1
                    elif rest[j] == ")":
                        depth -= 1
                        if depth == 0:
                            break
                arg = re.sub(r"\s+", "", rest[m.end():j]).rstrip(",")
                k = j + 1
                mm = re.match(r"\s*;?", rest[k:])
                i += k + mm.end()
                out.append(self.emit_arg(arg, env))
                continue
            m = re.match(r"for\s+(.+?)\s+in\s+(.+?)\s*\{", rest, flags=re.S)
            if m:
                pat, coll = re.sub(r"\s+", "", m.group(1)), re.sub(r"\s+", "", m.group(2))
                body, end = block(rest, m.end() - 1)
                cm = re.fullmatch(r"&?([\w.]+?)(?:\.iter\(\))?", coll)
                if not cm:
                    raise Unrecognised("for-collection %r" % coll)
                path = cm.group(1).split(".")
                cty = self.path_type(env, path).lstrip("&")
                pm = re.fullmatch(r"\(_\w*,\(_\w*,(\w+)\)\)", pat)
                if pm:
                    mm = re.fullmatch(r"BTreeMap<usize,(.+)>", cty)
                    if not mm:
                        raise Unrecognised("map pattern over %s" % cty)
                    pair = self.resolve(mm.group(1))
                    tm = re.fullmatch(r"\((\w+),(\w+)\)", pair)
                    if not tm:
                        raise Unrecognised("record entry type %s" % pair)
                    x, xty = pm.group(1), tm.group(2)
                elif re.fullmatch(r"\w+", pat):
                    x, xty = pat, self.elem(cty, "for")
                else:
                    raise Unrecognised("for-pattern %r" % pat)
                env2 = dict(env)
                env2[x] = xty
                out.append(("each", path, x, self.stmts(body, env2, sinks, state)))
                i += end
                continue
            m = re.match(r"if\s+let\s+(\w+)::(\w+)\s*\(\s*(\w+)\s*\)\s*=\s*&\s*([\w.]+)\s*\{", rest)
            if m:
                en, var, x, p = m.group(1), m.group(2), m.group(3), m.group(4).split(".")
                body, end = block(rest, m.end() - 1)
                ty = self.path_type(env, p)
                if ty != en or en not in self.enums or var not in self.enums[en]:
                    raise Unrecognised("if let %s::%s on %s" % (en, var, ty))
                env2 = dict(env)
                env2[x] = self.enums[en][var]
                out.append(("whenVariant", p, var, x, self.stmts(body, env2, sinks, state)))
                i += end
                continue
            m = re.match(r"if\s+let\s+Some\s*\(\s*(\w+)\s*\)\s*=\s*&?\s*([\w.]+)\s*\{", rest)
            if m:
                x, p = m.group(1), m.group(2).split(".")
                body, end = block(rest, m.end() - 1)
                ty = self.path_type(env, p)
                mm = re.fullmatch(r"Option<(.+)>", ty)
                if not mm:
                    raise Unrecognised("if let Some on %s" % ty)
                env2 = dict(env)
                env2[x] = mm.group(1)
                out.append(("whenSome", p, x, self.stmts(body, env2, sinks, state)))
                i += end
                continue
            m = re.match(r"match\s+([\w.]+)\s*\{", rest)
            if m:
                p = m.group(1).split(".")
                body, end = block(rest, m.end() - 1)
                ty = self.path_type(env, p).lstrip("&")
                if ty not in self.enums:
                    raise Unrecognised("match on %s" % ty)
                seen = set()
                sq = re.sub(r"\s+", "", body)
                pos = 0
                arm = re.compile(r"%s::(\w+)\((\w+)\)=>\{?(\w+)\.extend_from_slice\((\w+)\.as_slice\(\)\);?\}?,?" % re.escape(ty))
                while pos < len(sq):
                    am = arm.match(sq, pos)
                    if not am or am.group(3) not in sinks or am.group(2) != am.group(4) or self.enums[ty].get(am.group(1)) != "Vec<u8>":
                        raise Unrecognised("payload match arm at %r" % sq[pos:pos + 50])
                    if state.get("secondary") and am.group(3) != state["secondary"]:
                        state["dirty"] = True
                    seen.add(am.group(1))
                    pos = am.end()
                if seen != set(self.enums[ty]):
                    raise Unrecognised("payload match does not cover every variant of %s" % ty)
                out.append(("payload", p))
                i += end
                continue
            raise Unrecognised("statement %r" % rest[:70])
        return out

    def emit_arg(self, arg, env):
        m = re.fullmatch(r"&([\w.]+)\.to_be_bytes\(\)\?", arg)
        if m:
            p = m.group(1).split(".")
            if self.path_type(env, p).lstrip("&") != "FieldValue":
                raise Unrecognised("to_be_bytes()? on %s" % self.path_type(env, p))
            return ("value", p)
        m = re.fullmatch(r"&([\w.]+)\.to_be_bytes\(\)", arg)
        if m:
            p = m.group(1).split(".")
            ty = self.path_type(env, p).lstrip("&")
            if ty not in INT_W:
                raise Unrecognised("to_be_bytes() on %s" % ty)
            return ("num", p, INT_W[ty])
        m = re.fullmatch(r"&([\w.]+)|([\w.]+)\.as_slice\(\)", arg)
        if m:
            p = (m.group(1) or m.group(2)).split(".")
            if self.path_type(env, p).lstrip("&") != "Vec<u8>":
                raise Unrecognised("raw bytes of %s" % self.path_type(env, p))
            return ("bytes", p)
        raise Unrecognised("extend_from_slice argument %r" % arg)


def translate(src, ty):
    """src: comment-stripped source of v9.rs / ipfix.rs; ty: 'V9' / 'IPFix'  ->  nested python lists (JSON-able)"""
    m = re.search(r"impl\s+%s\s*\{\s*pub\s+fn\s+to_be_bytes\s*\(\s*&self\s*\)\s*->\s*Result<Vec<u8>,\s*Box<dyn\s+std::error::Error>>\s*\{" % ty, src)
    if not m:
        raise Unrecognised("%s::to_be_bytes not found" % ty)
    body, _ = block(src, m.end() - 1)
    body = body.strip()
    if not re.search(r"Ok\s*\(\s*result\s*\)\s*$", body):
        raise Unrecognised("%s::to_be_bytes does not end in Ok(result)" % ty)
    body = re.sub(r"Ok\s*\(\s*result\s*\)\s*$", "", body)
    tr = Tr(src, ty)
    sinks, state = set(), {}
    prog = tr.stmts(body, {"self": ty}, sinks, state)
    if sinks != {"result"} or state.get("secondary"):
        raise Unrecognised("%s::to_be_bytes: sinks %r" % (ty, sorted(sinks)))
    return alpha_normalise(prog)


def alpha_normalise(prog, env=None, depth=0):
    """binder names are replaced by `b<nesting depth>`: the emitted program depends on the STRUCTURE of the exporter only, never on how the
    source names its loop / pattern variables (a rename is not a change)"""
    env = dict(env or {})
    out = []

    def rp(path):
        return [env.get(path[0], path[0])] + list(path[1:])
    for e in prog:
        k = e[0]
        if k == "num":
            out.append([k, rp(e[1]), e[2]])
        elif k in ("bytes", "value", "payload"):
            out.append([k, rp(e[1])])
        elif k in ("each", "whenSome"):
            b = "b%d" % depth
            env2 = dict(env)
            env2[e[2]] = b
            out.append([k, rp(e[1]), b, alpha_normalise(e[3], env2, depth + 1)])
        elif k == "whenVariant":
            b = "b%d" % depth
            env2 = dict(env)
            env2[e[3]] = b
            out.append([k, rp(e[1]), e[2], b, alpha_normalise(e[4], env2, depth + 1)])
        else:
            raise ValueError(k)
    return out


def lean_path(p):
    return "[" + ", ".join('"%s"' % x for x in p) + "]"


def lean_prog(prog, ind=2):
    pad = " " * ind
    items = []
    for e in prog:
        k = e[0]
        if k == "num":
            items.append("%s.num %s %d" % (pad, lean_path(e[1]), e[2]))
        elif k in ("bytes", "value", "payload"):
            items.append("%s.%s %s" % (pad, k, lean_path(e[1])))
        elif k == "each":
            items.append('%s.each %s "%s" [\n%s]' % (pad, lean_path(e[1]), e[2], lean_prog(e[3], ind + 2)))
        elif k == "whenVariant":
            items.append('%s.whenVariant %s "%s" "%s" [\n%s]' % (pad, lean_path(e[1]), e[2], e[3], lean_prog(e[4], ind + 2)))
        elif k == "whenSome":
            items.append('%s.whenSome %s "%s" [\n%s]' % (pad, lean_path(e[1]), e[2], lean_prog(e[3], ind + 2)))
        else:
            raise ValueError(k)
    return ",\n".join(items)


def emit_lean(v9prog, ipprog):
    return ("/- GENERATED by tools/translate.py (translate_export.py) from the Rust source of /repo — do not edit. -/\n"
            "import NetflowModel.ExportProg\nnamespace Netflow.Generated\nopen Netflow\n\n"
            "/-- `V9::to_be_bytes`, statement by statement -/\ndef v9ExportProg : List Emit := [\n%s]\n\n"
            "/-- `IPFix::to_be_bytes`, statement by statement -/\ndef ipExportProg : List Emit := [\n%s]\n\nend Netflow.Generated\n"
            % (lean_prog(v9prog), lean_prog(ipprog)))


if __name__ == "__main__":
    import sys
    sys.path.insert(0, __file__.rsplit("/", 1)[0])
    import translate
    v9 = translate.strip_comments(translate.read("variable_versions/v9.rs"))
    ipf = translate.strip_comments(translate.read("variable_versions/ipfix.rs"))
    print(emit_lean(translate_mod(v9, "V9") if False else translate(v9, "V9"), translate(ipf, "IPFix")))
