#!/bin/bash
# usage: seedsweep.sh <seed...>   quick tier of all 17 properties under each seed (run from a snapshot of /verif)
python3 tools/translate.py > /dev/null
(cd lean && lake build nfdriver NetflowModel.Props.All 2>&1 | tail -1)
(cd harness && CARGO_NET_OFFLINE=true cargo build --release --offline 2>&1 | tail -1)
for sd in "$@"; do
  for p in C01 C02 C03 C04 C05 C06 C07 C08 C09 C10 C11 C12 C13 C14 C15 C16 C17; do
    VERIF_SEED=$sd python3 check.py $p --tier quick > out_${sd}_$p.log 2>&1
    rc=$?
    [ $rc -ne 0 ] && { echo "SWEEP seed=$sd $p rc=$rc"; grep VIOLATION out_${sd}_$p.log | head -2; }
  done
  echo "SWEEP seed=$sd done"
done
