HOOK_COMMITS = []
NOTES = "Every check: python3 check.py <id> --tier quick|thorough. Known findings: known_findings.json. See DESIGN.md."
NOT_CLAIMED = {}
BASE_NOTE = ("Trusted: Lean 4.33 kernel (axioms ⊆ propext, Classical.choice, Quot.sound; audited each run), tools/translate.py with translate_ctl.py / translate_export.py / translate_nom.py / translate_serde.py / translate_text.py "
             "(tables, layouts, value-codec arms, the control skeleton of lib.rs/v9.rs/ipfix.rs — constants, comparison operators, dispatch-arm orders, flags — and the V9/IPFIX "
             "exporters statement by statement are REGENERATED from the source on every run and proved to be the model the theorems are about: Lemmas/G1Arms, G2Ctl, G3Export, G4Nom, Props/SerdeGen; a token fingerprint of every source file, the file set and Cargo.toml "
             "ties the hand-written parts to exactly the text they were written against — any other text is a reported fallback and widens the correspondence search), "
             "the remaining hand-written model (nom combinators, record loops, options-data loops, common view loops: tied to the code by the correspondence run only), harness dump + driver reader.")
import os, re
_PROPS_DIR = os.path.join(os.path.dirname(os.path.abspath(__file__)), "..", "lean", "NetflowModel", "Props")

def _has_theorems(pid):
    p = os.path.join(_PROPS_DIR, pid + ".lean")
    return os.path.exists(p) and re.search(r"^theorem ", open(p).read(), flags=re.M) is not None

CORR = (" The executable model is compared with the real crate on every generated operation history (view: %s) and the same decidable predicate "
        "(lean/NetflowModel/Preds.lean) that the theorems are about is evaluated on what the real crate returned.")
TV_TEXT = ("Theorems for this property are not finished yet: the claim today is that the Lean model (whose tables/layouts are regenerated from the source on every run) "
           "and the real crate agree on the property's view for every generated history, and that the property's decidable predicate, stated once in Lean, holds on the crate's output "
           "outside the recorded known findings.")

_T = {
    "C01": ("no panic / abort / stack overflow / hang: model functions are total; oracle = the crate returned normally on a 2 MiB-stack thread and every returned value re-exports, converts and serialises without panic", "outcome"),
    "C02": ("Theorem Props.C02 / C02_generated: for every configuration whose generated tables satisfy the framing facts (re-decided on each run for the tables regenerated from the source), every cache state and every buffer, whenever the modelled parse_bytes returns, its result satisfies Preds.decomposes (header-implied wire lengths sum to a prefix, at most one final error whose remaining bytes are the unconsumed suffix, silent stop only before a disallowed version). Induction over the packet loop from per-parser consumption lemmas.", "outcome, packets"),
    "C03": ("V5/V7 decode at the Cisco offsets (hand-written Cisco layouts in Spec/Cisco.lean compared with the layouts generated from the derive(Nom) structs), protocol names against the IANA table in Spec/Iana.lean, short input is an error", "outcome, packets"),
    "C04": ("V9 streams decode exactly as the governing template says (also with the RFC 3954 record count in the header when the packet ends its buffer: Props/C04c.lean; template-record parsers regenerated from the derive(Nom) declarations: Props/NomGen.lean): expected view computed by the specification (Spec/Expected.lean: latest-definition-wins template memory, per-type big-endian interpretation) from the abstract stream that the RFC 3954 writer Spec.enc encoded", "outcome, packets, caches"),
    "C05": ("IPFIX streams decode exactly as RFC 7011 and the template say (enterprise fields, variable-length prefixes, zero-length fields, options templates); expected view from Spec/Expected.lean", "outcome, packets, caches"),
    "C06": ("template cache: the caches after any call ARE the replay of the template records reported by it (Props/C06c.lean: for arbitrary bytes; V9 needs the clause that the result does not end in a V9 partial-parse error, with a witness why), latest definition wins (either kind), persists across calls, independent of the split into calls, untouched by V5/V7 / disallowed versions, isolated per parser instance and protocol", "outcome, packets, caches"),
    "C07": ("data for an unknown template id never yields records (V9: error; IPFIX: set absent), caches unchanged, earlier packets reported, later decodes normally; also for an id the CALLER removed from the public cache maps (operation forget; Props/C07d.lean)", "outcome, packets, caches"),
    "C08": ("V5/V7 re-export reproduces the bytes each packet occupied (full strength); structure -> bytes -> structure holds exactly for structures whose DERIVED fields (version, protocol_type) carry what the parser derives (Props/C08b.lean: necessary and sufficient; the two deviations are recorded known findings); emission order generated from to_be_bytes and compared with the layout", "outcome, packets, exports"),
    "C09": ("V9 re-export reproduces the bytes each accepted packet occupied (lossy value kinds are recorded known findings)", "outcome, packets, exports"),
    "C10": ("IPFIX re-export reproduces header.length bytes (lossy value kinds, enterprise bit, variable-length prefixes, dropped sets are recorded known findings)", "outcome, packets, exports"),
    "C11": ("chained self-delimiting packets decode as one-per-call, same final caches, for every partition into calls", "outcome, packets, caches"),
    "C12": ("allowed_versions acts as a prefix filter on the every-version-allowed result and caches; allowed unknown versions give UnknownVersion", "outcome, packets, caches"),
    "C13": ("common-flow view is the projection of the decoded records (spec projection Preds.specCommon); flat helper = concatenation", "outcome, packets, common"),
    "C15": ("parsing cost (theorems: result size linear without zero-length fields and bounded by records x fields in general, the per-packet tail copy is exactly quadratic on packed buffers — Props/C15b.lean; the decode work of the V9 record loop is paid by the records it returns plus one template's worth, the repaired loop returns what the retrying fold returned, the fold had no linear bound — Props/C15c.lean over the work model CostWork.lean; lifted to whole reported V9 packets and IPFIX messages (work ≤ share of the result + M per set, + the product term for the one IPFIX set a message stops on) — Props/C15d.lean; measured:) heap bytes requested AND peak live heap during parse_bytes (counting allocator in the harness) bounded by A*|buf| + B*size(result) + C + W*(modelled data-path work of the call, Cost.workOf: work a late failure discards is paid by no byte of the result), and size(result) bounded by D*(|buf| + wire size of cached templates) + E, with the size measures defined in Lean (Cost.lean) and the constants fixed in the driver; super-linear families are recorded known findings", "outcome, packets"),
    "C16": ("JSON (theorems: text round trip of the printed tree, ordered match, name-keyed read-back readJ (toJ p) = normal form of p for every parse result, member schema regenerated from the derive(Serialize) declarations): serde_json succeeds, the text is identical when produced twice and by a twin parser fed the same history, and read back it equals the model's serialisation tree toJ (Json.lean) of the decoded value (numbers exact incl. 128-bit, NaN/inf as null, lossy strings, error elements)", "outcome, packets"),
    "C17": ("feature parse_unknown_fields off: the crate must build (a failing build is the violation, replay = compiler output); a second harness is linked against that build; with only known field types both builds give identical packets/exports/common view/caches, and no decoded record carries a field of unknown type", "outcome, packets, caches, exports, common"),
    "C14": ("a buffer shorter than its own header announces (V5/V7 count, IPFIX length, V9 flowset length: decidable predicate on the raw bytes, Props/C14b.lean) and a packet cut strictly inside both yield an error carrying exactly those bytes, earlier packets unchanged, caches unchanged for V5/V7/IPFIX", "outcome, packets, caches"),
}

CLAIMS = {}
for _pid, (_txt, _view) in _T.items():
    _proof = _has_theorems(_pid)
    CLAIMS[_pid] = {
        "category": "proof" if _proof else "translation_validation",
        "text": (_txt if _proof else TV_TEXT + " Property reading: " + _txt) + CORR % _view,
        "note": BASE_NOTE,
        "technique": ("Lean 4 theorems about the model (Props/%s.lean) + model regenerated from source + differential correspondence" % _pid) if _proof
                     else "Lean 4 executable model + specification oracle, differential correspondence with the real crate (theorems pending)",
    }
