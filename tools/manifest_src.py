HOOK_COMMITS = []
NOTES = "Every check: python3 check.py <id> --tier quick|thorough. Known findings: known_findings.json. See DESIGN.md."
NOT_CLAIMED = {}
BASE_NOTE = ("Trusted: Lean 4.33 kernel (axioms ⊆ propext, Classical.choice, Quot.sound; audited each run), tools/translate.py, "
             "the hand-written model of the control logic (tied to the code by the correspondence run only), harness dump + driver reader.")
CLAIMS = {
    "C02": {
        "category": "proof",
        "text": "Theorem Props.C02 / C02_generated: for every configuration whose generated tables satisfy the framing facts (re-decided on each run for the tables regenerated from the source), every cache state and every buffer, whenever the modelled parse_bytes returns, its result satisfies the decidable predicate Preds.decomposes (packets' header-implied wire lengths sum to a prefix, at most one final error whose remaining bytes are the unconsumed suffix, silent stop only before a disallowed version). Induction over the packet loop from per-parser consumption lemmas. The same predicate is evaluated on the real crate's output on every generated history, and the model's answer is compared with the crate's.",
        "note": BASE_NOTE,
        "technique": "Lean 4 theorem (induction over parse loop, generic layout lemmas) + generated tables + differential correspondence",
    },
}
