#!/usr/bin/env python3
"""runner.py — process control shared by check.py: build steps, harness execution with crash /
timeout attribution, driver invocation.  No property is stated here."""
import json, os, re, shutil, signal, subprocess, sys, time

VERIF = os.path.dirname(os.path.dirname(os.path.abspath(__file__)))
LEAN = os.path.join(VERIF, "lean")
HARNESS = os.path.join(VERIF, "harness")
REPO = os.environ.get("NF_REPO", "/repo")
DRIVER = os.path.join(LEAN, ".lake", "build", "bin", "nfdriver")
ENV = dict(os.environ, CARGO_NET_OFFLINE="true")


def sh(cmd, cwd=None, timeout=3600, env=None):
    p = subprocess.run(cmd, cwd=cwd, shell=isinstance(cmd, str), stdout=subprocess.PIPE, stderr=subprocess.STDOUT,
                       timeout=timeout, env=env or ENV, text=True)
    out = "\n".join(l for l in p.stdout.splitlines() if not l.startswith("WARNING conda"))
    return p.returncode, out


def translate():
    rc, out = sh([sys.executable, os.path.join(VERIF, "tools", "translate.py")])
    summary = None
    for l in out.splitlines():
        if l.startswith("{"):
            try:
                summary = json.loads(l)
            except Exception:
                pass
    return rc, summary, out


def lake_build(targets):
    t0 = time.time()
    rc, out = sh(["lake", "build"] + targets, cwd=LEAN, timeout=3600)
    return rc, out, time.time() - t0


def harness_build(features_default=True, profile="release"):
    """(re)build nfh against REPO's current working tree"""
    cargo_toml = os.path.join(HARNESS, "Cargo.toml")
    txt = open(cargo_toml).read()
    new = re.sub(r'netflow_parser = \{ path = "[^"]*"', 'netflow_parser = { path = "%s"' % REPO, txt)
    if new != txt:
        open(cargo_toml, "w").write(new)
    cmd = ["cargo", "build", "--offline"]
    if profile == "release":
        cmd.append("--release")
    tdir = os.path.join(HARNESS, "target")
    if not features_default:
        cmd += ["--no-default-features", "--target-dir", os.path.join(HARNESS, "target-nouf")]
        tdir = os.path.join(HARNESS, "target-nouf")
    rc, out = sh(cmd, cwd=HARNESS, timeout=1800)
    binp = os.path.join(tdir, "release" if profile == "release" else "debug", "nfh")
    return rc, out, binp


def _limit_memory():
    import resource
    cap = int(os.environ.get("NF_HARNESS_MEM", str(8 << 30)))
    resource.setrlimit(resource.RLIMIT_AS, (cap, cap))


def run_harness(binp, ops_path, out_path, op_timeout=60.0):
    """run nfh over the whole ops file; on a crash / hang attribute it to the op in flight, mark the
    rest of that scenario as skipped and restart at the next scenario.  Returns {line: answer}."""
    ops = [json.loads(l) for l in open(ops_path)]
    scen_starts = [i for i, o in enumerate(ops) if o.get("op") == "scenario"]
    answers = {}
    start = 0
    crashes = []
    while start < len(ops):
        if os.path.exists(out_path):
            os.remove(out_path)
        # address-space cap for the process that runs the REAL crate: a change that makes parse_bytes allocate without bound must
        # abort that process (reported as an `abort` outcome of the operation in flight), not exhaust the machine
        p = subprocess.Popen([binp, ops_path, out_path, str(start)], stdout=subprocess.DEVNULL, stderr=subprocess.PIPE, env=ENV,
                             preexec_fn=_limit_memory)
        last_size, last_change = -1, time.time()
        timed_out = False
        while True:
            try:
                p.wait(timeout=0.2)
                break
            except subprocess.TimeoutExpired:
                sz = os.path.getsize(out_path) if os.path.exists(out_path) else 0
                if sz != last_size:
                    last_size, last_change = sz, time.time()
                elif time.time() - last_change > op_timeout:
                    p.kill()
                    p.wait()
                    timed_out = True
                    break
        err = p.stderr.read().decode(errors="replace") if p.stderr else ""
        inflight = None
        if os.path.exists(out_path):
            for l in open(out_path):
                try:
                    j = json.loads(l)
                except Exception:
                    continue
                if "ans" in j:
                    answers[j["i"]] = j["ans"]
                    if inflight == j["i"]:
                        inflight = None
                elif j.get("inflight"):
                    inflight = j["i"]
        if p.returncode == 0 and not timed_out:
            break
        # crash or hang
        if inflight is None:
            # died outside a parse op: give up on this file position
            crashes.append({"line": start, "rc": p.returncode, "stderr": err[-400:], "kind": "harness-failure"})
            nxt = [s for s in scen_starts if s > start]
            if not nxt:
                break
            start = nxt[0]
            continue
        outcome = "timeout" if timed_out else "abort"
        answers[inflight] = {"outcome": outcome, "rc": p.returncode, "stderr": err[-300:]}
        crashes.append({"line": inflight, "rc": p.returncode, "kind": outcome, "stderr": err[-300:]})
        if timed_out:
            # a hang is established: later hangs get a shorter leash, and after three of them the remaining scenarios are not run
            # (each would cost a full time-out; the operations already answered decide the verdict)
            op_timeout = min(op_timeout, 15.0)
            if sum(1 for c in crashes if c["kind"] == "timeout") >= 3:
                break
        nxt = [s for s in scen_starts if s > inflight]
        if not nxt:
            break
        start = nxt[0]
    return answers, crashes


def merge(ops_path, answers, merged_path, answers2=None):
    with open(merged_path, "w") as f:
        for i, l in enumerate(open(ops_path)):
            o = json.loads(l)
            d = {"i": i, "op": o, "impl": answers.get(i)}
            if answers2 is not None and i in answers2:
                d["impl2"] = answers2[i]
            f.write(json.dumps(d) + "\n")


def driver_encode(in_path, out_path):
    with open(in_path) as fi, open(out_path, "w") as fo:
        p = subprocess.run([DRIVER, "encode"], stdin=fi, stdout=fo, stderr=subprocess.PIPE, text=True)
    return p.returncode, p.stderr


def driver_check(merged_path, verdict_path, timeout=3600):
    with open(merged_path) as fi, open(verdict_path, "w") as fo:
        p = subprocess.run([DRIVER], stdin=fi, stdout=fo, stderr=subprocess.PIPE, text=True, timeout=timeout)
    verdicts = {}
    for l in open(verdict_path):
        try:
            j = json.loads(l)
        except Exception:
            continue
        if "i" in j:
            verdicts[j["i"]] = j
    return p.returncode, p.stderr, verdicts
