#!/usr/bin/env python3
"""translate.py — Rust source of netflow_parser  ->  lean/NetflowModel/Generated.lean

Re-reads the *data and straight-line layout* parts of /repo on every run (DESIGN §1.2):
  protocol.rs            enum discriminants, From<u8>, From<ProtocolTypes> for u8
  v9_lookup.rs           ScopeFieldType, V9Field discriminants, From<u16>, From<V9Field> for FieldDataType
  ipfix_lookup.rs        IPFixField discriminants, From<u16>, From<IPFixField> for FieldDataType
  data_number.rs         DataNumber::parse arm table
  v5.rs v7.rs v9.rs ipfix.rs   derive(Nom) layouts of the scalar structs, to_be_bytes emission orders,
                         dispatch constants
  lib.rs                 default allowed versions, version dispatch arms
  src/**                 absence of global mutable state

Every item is parsed with an explicit grammar; an unrecognised shape raises Unrecognised for that
item (reported on stderr and in the JSON summary); the caller then keeps the committed snapshot
value for that item and must rely on the correspondence run for it.
"""
import json, os, re, sys

import translate_ctl
import translate_text
from translate_ctl import squash
import translate_export
import translate_serde
import translate_nom
REPO = os.environ.get("NF_REPO", "/repo")
SRC = os.path.join(REPO, "src")


class Unrecognised(Exception):
    pass


translate_ctl.Unrecognised = Unrecognised
translate_text.Unrecognised = Unrecognised
translate_export.Unrecognised = Unrecognised
translate_serde.Unrecognised = Unrecognised
translate_nom.Unrecognised = Unrecognised


def read(rel):
    """a source file; a file that is missing (moved, renamed) reads as empty, so that every item taken from it becomes an unrecognised
    shape (snapshot fallback) instead of a fatal error of the translator"""
    try:
        with open(os.path.join(SRC, rel)) as f:
            return f.read()
    except OSError:
        return ""


def strip_comments(s):
    """single-pass Rust lexer: removes line comments and (NESTED) block comments, leaves string / raw-string / char literals untouched.
    A comment opener inside a string or an unterminated construct can therefore not hide code from the translator or from rustc only."""
    out = []
    i, n = 0, len(s)
    while i < n:
        c = s[i]
        if s.startswith("//", i):
            j = s.find("\n", i)
            i = n if j < 0 else j
            continue
        if s.startswith("/*", i):
            depth, j = 1, i + 2
            while j < n and depth:
                if s.startswith("/*", j):
                    depth += 1
                    j += 2
                elif s.startswith("*/", j):
                    depth -= 1
                    j += 2
                else:
                    j += 1
            if depth:
                raise Unrecognised("unterminated block comment")
            out.append(" ")
            i = j
            continue
        m = re.match(r'b?r(#*)"', s[i:]) if c in "br" else None
        if m and (i == 0 or not (s[i - 1].isalnum() or s[i - 1] == "_")):
            close = '"' + m.group(1)
            j = s.find(close, i + m.end())
            if j < 0:
                raise Unrecognised("unterminated raw string")
            out.append(s[i:j + len(close)])
            i = j + len(close)
            continue
        if c == '"':
            j = i + 1
            while j < n and s[j] != '"':
                j += 2 if s[j] == "\\" else 1
            if j >= n:
                raise Unrecognised("unterminated string")
            out.append(s[i:j + 1])
            i = j + 1
            continue
        if c == "'":
            m2 = re.match(r"'(\\.[^']*|[^'\\])'", s[i:])
            if m2:
                out.append(m2.group(0))
                i += m2.end()
                continue
        out.append(c)
        i += 1
    return "".join(out)


def strip_nom_string_comments(s):
    """the string literals inside `#[nom(..)]` attributes hold Rust CODE that nom-derive tokenises (comments in it are ignored by the
    compiler): remove line comments from those strings so that the recognisers see the tokens only"""
    out, i = [], 0
    for m in re.finditer(r"#\[nom\(", s):
        if m.start() < i:
            continue
        depth, j, instr = 0, m.start() + 1, False
        while j < len(s):
            ch = s[j]
            if instr:
                if ch == "\\":
                    j += 1
                elif ch == '"':
                    instr = False
            elif ch == '"':
                instr = True
            elif ch == "[":
                depth += 1
            elif ch == "]":
                depth -= 1
                if depth == 0:
                    break
            j += 1
        attr = s[m.start():j + 1]
        attr = re.sub(r'"((?:[^"\\]|\\.)*)"', lambda mm: '"' + re.sub(r"//[^\n]*", "", mm.group(1)) + '"', attr, flags=re.S)
        out.append(s[i:m.start()])
        out.append(attr)
        i = j + 1
    out.append(s[i:])
    return "".join(out)


def block_after(s, start_idx):
    """return text of the {...} block whose '{' is the first one at/after start_idx"""
    i = s.index("{", start_idx)
    depth = 0
    for j in range(i, len(s)):
        if s[j] == "{":
            depth += 1
        elif s[j] == "}":
            depth -= 1
            if depth == 0:
                return s[i + 1 : j], j + 1
    raise Unrecognised("unbalanced braces")


def parse_enum(src, name):
    ms = list(re.finditer(r"pub\s+enum\s+%s\s*\{" % re.escape(name), src))
    if len(ms) != 1:
        raise Unrecognised("enum %s found %d times" % (name, len(ms)))
    m = ms[0]
    head = re.search(r"((?:#\[(?:[^\[\]]|\[[^\]]*\])*\]\s*)*)$", src[max(0, m.start() - 400):m.start()]).group(1)
    if re.search(r"#\[\s*(serde|nom)\b", head):
        raise Unrecognised("enum %s: container attribute %r" % (name, squash(head)[:80]))
    body, _ = block_after(src, m.start())
    body = re.sub(r"#\[default\]", "", body)
    if re.search(r"#\s*\[", body):
        raise Unrecognised("enum %s: attribute on a variant" % name)
    out = []
    nxt = 0
    for item in body.split(","):
        item = item.strip()
        if not item:
            continue
        mm = re.fullmatch(r"([A-Za-z_][A-Za-z0-9_]*)(?:\s*=\s*(\d+))?", item)
        if not mm:
            raise Unrecognised("enum %s: variant %r" % (name, item))
        d = int(mm.group(2)) if mm.group(2) is not None else nxt
        out.append((mm.group(1), d))
        nxt = d + 1
    names = [n for n, _ in out]
    if len(set(names)) != len(names):
        raise Unrecognised("enum %s: duplicate variant" % name)
    return out


def find_impl(src, header_re):
    ms = list(re.finditer(header_re, src))
    if len(ms) != 1:
        raise Unrecognised("impl %s found %d times" % (header_re, len(ms)))
    body, _ = block_after(src, ms[0].start())
    return body


def sole_fn(impl_body, sig, what):
    """the impl block is exactly one function whose signature, white space removed, is `sig`; -> its body"""
    sq = squash(impl_body)
    if not sq.startswith(sig + "{") or not sq.endswith("}"):
        raise Unrecognised("%s: the impl is not the single function %s" % (what, sig))
    i = impl_body.index("{")
    body, end = block_after(impl_body, i)
    if impl_body[end:].strip():
        raise Unrecognised("%s: items after the function" % what)
    return body


def fn_of(impl_body, sig_re, what):
    """the unique function of the impl block whose header matches sig_re (a regex over the text up to and including `{`); -> its body"""
    ms = list(re.finditer(sig_re, impl_body))
    if len(ms) != 1:
        raise Unrecognised("%s: header found %d times" % (what, len(ms)))
    body, _ = block_after(impl_body, ms[0].end() - 1)
    return body


def sole_match(fn_body, scrutinee, what):
    """the function body is exactly `match <scrutinee> { … }` (nothing before it that could rebind the scrutinee or return early,
    nothing after it that could post-process the result)"""
    sq = squash(fn_body)
    head = "match" + scrutinee + "{"
    if not sq.startswith(head):
        raise Unrecognised("%s: body does not start with `match %s`" % (what, scrutinee))
    depth = 0
    for j in range(len(head) - 1, len(sq)):
        if sq[j] == "{":
            depth += 1
        elif sq[j] == "}":
            depth -= 1
            if depth == 0:
                if j != len(sq) - 1:
                    raise Unrecognised("%s: statements after the match" % what)
                return
    raise Unrecognised("%s: unbalanced" % what)


def match_arms(body, scrutinee_re):
    m = re.search(r"match\s+%s\s*\{" % scrutinee_re, body)
    if not m:
        raise Unrecognised("match on %s not found" % scrutinee_re)
    arms, _ = block_after(body, m.start())
    res = []
    parts, depth, cur = [], 0, ""
    for ch in arms:
        if ch in "([{":
            depth += 1
        if ch in ")]}":
            depth -= 1
        if ch == "," and depth == 0:
            parts.append(cur)
            cur = ""
            continue
        cur += ch
        if ch == "}" and depth == 0 and re.search(r"=>\s*\{", cur):
            parts.append(cur)
            cur = ""
    if cur.strip():
        parts.append(cur)
    for arm in parts:
        arm = arm.strip()
        if not arm:
            continue
        mm = re.fullmatch(r"(.+?)\s*=>\s*(.+)", arm, flags=re.S)
        if not mm:
            raise Unrecognised("match arm %r" % arm)
        res.append((mm.group(1).strip(), mm.group(2).strip()))
    return res


def from_num_table(src, num_ty, enum_name):
    """impl From<u16> for Enum { match item { N => Enum::X, _ => Enum::Y } }  ->  ({N: X}, default)"""
    body = find_impl(src, r"impl\s+From<%s>\s+for\s+%s\s*\{" % (num_ty, enum_name))
    sole_match(sole_fn(body, "fnfrom(item:%s)->Self" % num_ty, "From<%s> for %s" % (num_ty, enum_name)), "item", "From<%s> for %s" % (num_ty, enum_name))
    tbl, default = {}, None
    for lhs, rhs in match_arms(body, r"item"):
        mm = re.fullmatch(r"%s::([A-Za-z0-9_]+)" % enum_name, rhs)
        if not mm:
            raise Unrecognised("From<%s> for %s: rhs %r" % (num_ty, enum_name, rhs))
        if lhs == "_":
            default = mm.group(1)
        elif re.fullmatch(r"\d+", lhs):
            if int(lhs) in tbl:
                continue  # first arm wins (rustc: later one unreachable)
            tbl[int(lhs)] = mm.group(1)
        else:
            raise Unrecognised("From<%s> for %s: pattern %r" % (num_ty, enum_name, lhs))
    if default is None:
        raise Unrecognised("From<%s> for %s: no default arm" % (num_ty, enum_name))
    return tbl, default


FTYPES = {
    "String": "str", "SignedDataNumber": "signed", "UnsignedDataNumber": "unsigned", "Float64": "f64",
    "DurationSeconds": "durS", "DurationMillis": "durMs", "DurationMicros": "durUs", "DurationNanos": "durNs",
    "Ip4Addr": "ip4", "Ip6Addr": "ip6", "MacAddr": "mac", "Vec": "vec", "ProtocolType": "proto", "Unknown": "unknown",
}


def ftype_table(src, enum_name):
    body = find_impl(src, r"impl\s+From<%s>\s+for\s+FieldDataType\s*\{" % enum_name)
    sole_match(sole_fn(body, "fnfrom(d:%s)->FieldDataType" % enum_name, "From<%s> for FieldDataType" % enum_name), "dasu16", "From<%s> for FieldDataType" % enum_name)
    tbl, default = {}, None
    for lhs, rhs in match_arms(body, r"d\s+as\s+u16"):
        mm = re.fullmatch(r"FieldDataType::([A-Za-z0-9]+)", rhs)
        if not mm or mm.group(1) not in FTYPES:
            raise Unrecognised("FieldDataType arm %r" % rhs)
        if lhs == "_":
            default = FTYPES[mm.group(1)]
        elif re.fullmatch(r"\d+", lhs):
            tbl.setdefault(int(lhs), FTYPES[mm.group(1)])
        else:
            raise Unrecognised("FieldDataType pattern %r" % lhs)
    if default is None:
        raise Unrecognised("FieldDataType: no default")
    return tbl, default


PRIM = {"u8": 1, "u16": 2, "u32": 4, "u64": 8, "u128": 16}
IPV4_FIELDS = set()


def parse_layout(src, struct_name, nth=0):
    """derive(Nom) struct of scalars -> [(name, kind)]; kind = ('wire',w) | ('const',v) | ('protoOf',srcname)"""
    ms = list(re.finditer(r"((?:#\[(?:[^\[\]]|\[[^\]]*\])*\]\s*)*)pub\s+struct\s+%s\s*\{" % re.escape(struct_name), src))
    if len(ms) <= nth:
        raise Unrecognised("struct %s not found" % struct_name)
    if len(ms) != 1:
        raise Unrecognised("struct %s declared %d times" % (struct_name, len(ms)))
    # struct-level attributes: exactly one derive list that contains Nom; nothing that changes what the derive generates
    # (`#[nom(LittleEndian)]`, `#[nom(Complete)]`, selectors ...), no serde container attribute, no repr
    sattrs = squash(ms[nth].group(1))
    if not re.fullmatch(r"#\[derive\([A-Za-z,]*\)\]", sattrs) or "Nom" not in re.split(r"[(),]", sattrs):
        raise Unrecognised("struct %s: struct-level attributes %r (want one derive list with Nom and nothing else)" % (struct_name, sattrs))
    body, _ = block_after(src, ms[nth].end() - 1)
    # split into fields with their attributes
    fields = []
    attrs = []
    pos = 0
    tok = re.compile(r"\s*(#\[(?:[^\[\]]|\[[^\]]*\])*\]|pub\s+[a-z_0-9]+\s*:\s*[A-Za-z0-9_<>:]+\s*,?)", re.S)
    while pos < len(body):
        if not body[pos:].strip():
            break
        m = tok.match(body, pos)
        if not m:
            raise Unrecognised("struct %s: cannot tokenise at %r" % (struct_name, body[pos : pos + 40]))
        t = m.group(1)
        pos = m.end()
        if t.startswith("#["):
            attrs.append(t)
            continue
        mm = re.fullmatch(r"pub\s+([a-z_0-9]+)\s*:\s*([A-Za-z0-9_<>:]+)\s*,?", t)
        name, ty = mm.group(1), mm.group(2)
        nom = [a for a in attrs if a.startswith("#[nom")]
        if any(not a.startswith("#[nom") for a in attrs):
            # a serde attribute (rename / skip / with …) changes the JSON of the field, anything else is unknown
            raise Unrecognised("struct %s.%s: attribute %s" % (struct_name, name, [a for a in attrs if not a.startswith("#[nom")][0][:40]))
        attrs = []
        if not nom:
            if ty not in PRIM:
                raise Unrecognised("struct %s.%s: type %s without nom attribute" % (struct_name, name, ty))
            fields.append((name, ("wire", PRIM[ty]), PRIM[ty]))
            continue
        if len(nom) != 1:
            raise Unrecognised("struct %s.%s: several nom attributes" % (struct_name, name))
        a = re.sub(r"\s+", " ", nom[0])
        mv = re.fullmatch(r'#\[nom\(Value = "(\d+)"\)\]', a)
        mp = re.fullmatch(r"#\[nom\(Value\(ProtocolTypes::from\(([a-z_0-9]+)\)\)\)\]", a)
        mi = re.fullmatch(r'#\[nom\(Map = "Ipv4Addr::from", Parse = "be_u32"\)\]', a)
        if mv and ty in PRIM:
            fields.append((name, ("const", int(mv.group(1))), PRIM[ty]))
        elif mp and ty == "ProtocolTypes":
            fields.append((name, ("protoOf", mp.group(1)), 1))
        elif mi and ty == "Ipv4Addr":
            fields.append((name, ("wire", 4), 4))
            IPV4_FIELDS.add(name)
        else:
            raise Unrecognised("struct %s.%s: nom attribute %s" % (struct_name, name, a))
    return fields


def parse_export_order(src, type_name):
    """symbolic evaluation of V5/V7::to_be_bytes -> (header order, record order) as lists of field names"""
    m = re.search(r"impl\s+%s\s*\{" % type_name, src)
    if not m:
        raise Unrecognised("impl %s" % type_name)
    impl, _ = block_after(src, m.start())
    m = re.search(r"pub\s+fn\s+to_be_bytes\s*\(\s*&self\s*\)\s*->\s*Vec<u8>\s*\{", impl)
    if not m:
        raise Unrecognised("%s::to_be_bytes signature" % type_name)
    body, _ = block_after(impl, m.start() + m.group(0).rindex("{") - 0)
    env = {}      # local -> list of (scope, field) in emission order; scope in {'header','set'}
    vecs = {}     # vec local -> list
    stmts = []

    def split_stmts(text):
        out, depth, cur = [], 0, ""
        i = 0
        while i < len(text):
            ch = text[i]
            if ch == "{":
                depth += 1
            if ch == "}":
                depth -= 1
                if depth == 0 and cur.lstrip().startswith("for "):
                    cur += ch
                    out.append(cur.strip())
                    cur = ""
                    i += 1
                    continue
            if ch == ";" and depth == 0:
                out.append(cur.strip())
                cur = ""
            else:
                cur += ch
            i += 1
        if cur.strip():
            out.append(cur.strip())
        return [s for s in out if s]

    def run(stmts_text, scope_name):
        for st in split_stmts(stmts_text):
            st1 = re.sub(r"\s+", " ", st)
            mm = re.fullmatch(r"let (?:mut )?([a-z_0-9]+) = (self\.header|set)\.([a-z_0-9]+)\.(?:to_be_bytes|octets)\(\)(?:\.to_vec\(\))?", st1)
            if mm:
                sc = "header" if mm.group(2) == "self.header" else "set"
                if mm.group(1) in env or (sc == "set" and scope_name != "set"):
                    raise Unrecognised("%s::to_be_bytes: local %s re-declared (shadowing) or `set` used outside the loop" % (type_name, mm.group(1)))
                env[mm.group(1)] = [(sc, mm.group(3))]
                continue
            mm = re.fullmatch(r"let mut ([a-z_0-9]+) = vec!\[\]", st1)
            if mm:
                if mm.group(1) in env:
                    raise Unrecognised("%s::to_be_bytes: local %s re-declared (shadowing)" % (type_name, mm.group(1)))
                env[mm.group(1)] = []
                continue
            mm = re.fullmatch(r"([a-z_0-9]+)\.extend_from_slice\(&([a-z_0-9]+)\)", st1)
            if mm and mm.group(1) in env and mm.group(2) in env:
                env[mm.group(1)] = env[mm.group(1)] + env[mm.group(2)]
                continue
            mm = re.fullmatch(r"for set in &self\.flowsets \{(.*)\}", st1)
            if mm:
                # the loop body is evaluated once symbolically: per-record emission
                before = {k: list(v) for k, v in env.items()}
                run(mm.group(1), "set")
                # what each outer vec gained during one iteration is the per-record order
                for k in before:
                    gained = env[k][len(before[k]):]
                    if gained:
                        env[k] = before[k] + [("loop", tuple(gained))]
                continue
            if re.fullmatch(r"[a-z_0-9]+", st1):
                env["__ret__"] = env[st1]
                continue
            raise Unrecognised("%s::to_be_bytes: statement %r" % (type_name, st1))

    run(body, "header")
    if "__ret__" not in env:
        raise Unrecognised("%s::to_be_bytes: no tail expression" % type_name)
    ret = env["__ret__"]
    hdr, recs, seen_loop = [], None, False
    for item in ret:
        if item[0] == "header":
            if seen_loop:
                raise Unrecognised("%s::to_be_bytes: header field after records" % type_name)
            hdr.append(item[1])
        elif item[0] == "loop":
            if seen_loop:
                raise Unrecognised("%s::to_be_bytes: two record loops" % type_name)
            seen_loop = True
            for sc, f in item[1]:
                if sc != "set":
                    raise Unrecognised("%s::to_be_bytes: non-record field in loop" % type_name)
            recs = [f for _, f in item[1]]
        else:
            raise Unrecognised("%s::to_be_bytes: stray %r" % (type_name, item))
    if recs is None:
        raise Unrecognised("%s::to_be_bytes: no record loop" % type_name)
    return hdr, recs


def parse_hdr_export_prefix(src, type_name):
    """V9/IPFix::to_be_bytes: the leading `result.extend_from_slice(&self.header.f.to_be_bytes());` run"""
    m = re.search(r"impl\s+%s\s*\{" % type_name, src)
    if not m:
        raise Unrecognised("impl %s" % type_name)
    impl, _ = block_after(src, m.start())
    m = re.search(r"pub\s+fn\s+to_be_bytes\s*\(\s*&self\s*\)[^{]*\{", impl)
    if not m:
        raise Unrecognised("%s::to_be_bytes" % type_name)
    body, _ = block_after(impl, m.end() - 1)
    order = []
    # white space removed and trailing commas dropped: the run must not depend on how rustfmt wraps a long statement
    stmts = [re.sub(r"\s+", "", s).replace(",)", ")") for s in body.split(";")]
    if not stmts or stmts[0] != "letmutresult=vec![]":
        raise Unrecognised("%s::to_be_bytes: first statement %r" % (type_name, stmts[:1]))
    for s in stmts[1:]:
        mm = re.fullmatch(r"result\.extend_from_slice\(&self\.header\.([a-z_0-9]+)\.to_be_bytes\(\)\)", s)
        if not mm:
            if "self.header" in s.split("{")[0]:
                # the statement that ends the run still touches the header: a shape this reader does not know (never a shorter list)
                raise Unrecognised("%s::to_be_bytes: header statement %r" % (type_name, s[:60]))
            break
        order.append(mm.group(1))
    if not order:
        raise Unrecognised("%s::to_be_bytes: no header emission" % type_name)
    if "self.header" in "".join(stmts[1 + len(order):]):
        raise Unrecognised("%s::to_be_bytes: header used after the leading run" % type_name)
    return order


def parse_dn_arms(src):
    body = find_impl(src, r"impl\s+DataNumber\s*\{")
    fn = fn_of(body, r"pub\s+fn\s+parse\s*\(\s*i\s*:\s*&\[u8\]\s*,\s*field_length\s*:\s*u16\s*,\s*signed\s*:\s*bool\s*,?\s*\)\s*->\s*IResult<&\[u8\],\s*DataNumber>\s*\{", "DataNumber::parse")
    sole_match(fn, "(field_length,signed)", "DataNumber::parse")
    m = re.search(r"match\s+\(field_length,\s*signed\)\s*\{", fn)
    if not m:
        raise Unrecognised("DataNumber::parse: match")
    arms = []
    parts = []
    for lhs, rhs in match_arms(fn, r"\(field_length,\s*signed\)"):
        r = re.sub(r"\s+", " ", rhs.strip())
        if r.startswith("{") and r.endswith("}"):
            r = r[1:-1].strip()                      # rustfmt wraps a long arm in a block
        r = re.sub(r"\s*\n\s*", "", r)
        parts.append("%s => %s" % (re.sub(r"\s+", " ", lhs.strip()), r))
    has_default = False
    for p in parts:
        p = re.sub(r"\s+", " ", p.strip())
        if not p:
            continue
        mm = re.fullmatch(r"\((\d+), (true|false)\) => (.+)", p)
        if not mm:
            if re.fullmatch(r"_ => Err\(NomErr::Error\(NomError::new\(i, ErrorKind::Fail\)\)\)", p):
                has_default = True
                continue
            raise Unrecognised("DataNumber::parse arm %r" % p)
        ln, signed, rhs = int(mm.group(1)), mm.group(2) == "true", mm.group(3)
        a = re.fullmatch(r"Ok\(([iu])(\d+)::parse\(i\)\?\)\.map\(\|\(i, j\)\| \(i, Self::([A-Z0-9a-z]+)\((j|j as i32)\)\)\)", rhs)
        b = re.fullmatch(r"Ok\(be_([iu])24\(i\)\.map\(\|\(i, j\)\| \(i, Self::([A-Z0-9a-z]+)\(j\)\)\)\?\)", rhs)
        if a:
            sgn, bits, var, expr = a.group(1) == "i", int(a.group(2)), a.group(3), a.group(4)
        elif b:
            sgn, bits, var, expr = b.group(1) == "i", 24, b.group(2), "j"
        else:
            raise Unrecognised("DataNumber::parse rhs %r" % rhs)
        if bits != 8 * ln or sgn != signed:
            raise Unrecognised("DataNumber::parse arm (%d,%s) reads a %s%d" % (ln, signed, "i" if sgn else "u", bits))
        var = var.lower()
        if var not in ("u8", "u16", "u24", "i24", "u32", "u64", "u128", "i32"):
            raise Unrecognised("DataNumber variant %s" % var)
        if expr == "j as i32" and var != "i32":
            raise Unrecognised("cast in arm %r" % p)
        if expr == "j":
            # the variant's payload type must be able to hold the parsed type without a cast
            natural = {"u8": (False, 8), "u16": (False, 16), "u24": (False, 24), "i24": (True, 24), "u32": (False, 32),
                       "u64": (False, 64), "u128": (False, 128), "i32": (True, 32)}[var]
            if natural != (sgn, bits):
                raise Unrecognised("arm %r stores %s%d in %s" % (p, "i" if sgn else "u", bits, var))
        arms.append(((ln, signed), var))
    if not has_default:
        raise Unrecognised("DataNumber::parse: no failing default arm")
    return arms


def parse_common_keys(src, impl_ty, enum_name, en):
    """`impl From<&V9|&IPFix> for NetflowCommon`: the WHOLE function is matched against one template (white space removed), the
    field keys and the header timestamp field being the only free parts — the closures (`.and_then(|v| v.try_into().ok())`), the
    loop nest and the `if let …::Data` filter are fixed text"""
    body = find_impl(src, r"impl\s+From<&%s>\s+for\s+NetflowCommon\s*\{" % impl_ty)
    sq = squash(sole_fn(body, "fnfrom(value:&%s)->Self" % impl_ty, "From<&%s> for NetflowCommon" % impl_ty)).replace(",)", ")").replace(",}", "}")
    E = re.escape(enum_name)
    K = lambda n: r"(?P<%s>[A-Za-z0-9_]+)" % n
    conv = r"\.and_then\(\|v\|v\.try_into\(\)\.ok\(\)\)"
    get = lambda n: r"value_map\.get\(&%s::%s\)" % (E, K(n))
    alt = lambda a, b: get(a) + r"\.or_else\(\|\|" + get(b) + r"\)" + conv
    one = lambda a: get(a) + conv
    tmpl = (r"letmutflowsets=vec!\[\];forflowsetin&value\.flowsets\{iflet%sFlowSetBody::Data\(data\)=&flowset\.body\{"
            r"fordata_fieldin&data\.fields\{letvalue_map:BTreeMap<%s,FieldValue>=data_field\.values\(\)\.cloned\(\)\.collect\(\);"
            r"flowsets\.push\(NetflowCommonFlowSet\{"
            r"src_addr:" + alt("src4", "src6") + r",dst_addr:" + alt("dst4", "dst6") +
            r",src_port:" + one("sport") + r",dst_port:" + one("dport") + r",protocol_number:" + one("proto") +
            r",protocol_type:" + get("proto2") + r"\.and_then\(\|v\|\{?v\.try_into\(\)\.ok\(\)\.map\(\|proto:u8\|ProtocolTypes::from\(proto\)\)\}?\)"
            r",first_seen:" + one("first") + r",last_seen:" + one("last") + r",src_mac:" + one("smac") + r",dst_mac:" + one("dmac") +
            r"\}\);\}\}\}NetflowCommon\{version:value\.header\.version,timestamp:value\.header\.(?P<ts>[a-z_]+),flowsets\}") % (re.escape(impl_ty), E)
    m = re.fullmatch(tmpl, sq)
    if not m:
        raise Unrecognised("common %s: the conversion is not the recognised loop nest / closure text" % impl_ty)
    g = m.groupdict()
    if g["proto2"] != g["proto"]:
        raise Unrecognised("common %s: protocol_type from a different field" % impl_ty)
    keys = {k: en[g[k]] for k in ("src4", "src6", "dst4", "dst6", "sport", "dport", "proto", "first", "last", "smac", "dmac")}
    keys["ts"] = g["ts"]
    return keys


def parse_common_static(src):
    """`impl From<&V5|&V7> for NetflowCommon`: fixed text (the model's common view of a V5/V7 packet is hard-coded from it)"""
    for ty in ("V5", "V7"):
        body = find_impl(src, r"impl\s+From<&%s>\s+for\s+NetflowCommon\s*\{" % ty)
        sq = squash(sole_fn(body, "fnfrom(value:&%s)->Self" % ty, "From<&%s> for NetflowCommon" % ty)).replace(",)", ")").replace(",}", "}")
        want = ("NetflowCommon{version:value.header.version,timestamp:value.header.sys_up_time,flowsets:value.flowsets.iter().map(|set|NetflowCommonFlowSet{"
                "src_addr:Some(set.src_addr.into()),dst_addr:Some(set.dst_addr.into()),src_port:Some(set.src_port),dst_port:Some(set.dst_port),"
                "protocol_number:Some(set.protocol_number),protocol_type:Some(set.protocol_type),first_seen:Some(set.first),last_seen:Some(set.last),"
                "src_mac:None,dst_mac:None}).collect()}")
        if sq != want:
            raise Unrecognised("From<&%s> for NetflowCommon is not the recognised projection" % ty)
    return {"commonStaticShape": True}


def parse_const(src, name):
    m = re.search(r"const\s+%s\s*:\s*u16\s*=\s*(\d+)\s*;" % name, src)
    if not m:
        raise Unrecognised("const %s" % name)
    return int(m.group(1))


def _squash(t):
    t = re.sub(r"\s+", "", t)
    return t.replace(",)", ")")


def parse_payload_enum(src, name):
    """pub enum X { A(T), B(U), ... } -> {A: T}"""
    m = re.search(r"pub\s+enum\s+%s\s*\{" % re.escape(name), src)
    if not m:
        raise Unrecognised("enum %s not found" % name)
    body, _ = block_after(src, m.start())
    body = re.sub(r"#\[[^\]]*\]", "", body)
    out = {}
    for item in body.split(","):
        item = item.strip()
        if not item:
            continue
        mm = re.fullmatch(r"([A-Za-z0-9_]+)\(([A-Za-z0-9_<>]+)\)", item)
        if not mm:
            raise Unrecognised("enum %s: variant %r" % (name, item))
        out[mm.group(1)] = mm.group(2)
    return out


DUR_UNITS = {"secs": 1, "millis": 1000, "micros": 1000000, "nanos": 1000000000}
VTAGS = {"String": "str", "DataNumber": "num", "Float64": "f64", "Duration": "dur", "Ip4Addr": "ip4", "Ip6Addr": "ip6",
         "MacAddr": "mac", "Vec": "vec", "ProtocolType": "proto", "Unknown": "unknown"}
SCALAR_BYTES = {"u8": 1, "u16": 2, "u32": 4, "u64": 8, "u128": 16, "i32": 4, "f64": 8, "Ipv4Addr": 4, "Ipv6Addr": 16}


def parse_value_arms(src):
    """the arms of FieldValue::from_field_type as descriptors (lean/NetflowModel/Arms.lean: ValueArm)"""
    body = find_impl(src, r"impl\s+FieldValue\s*\{")
    fn = fn_of(body, r"pub\s+fn\s+from_field_type\s*\(\s*remaining\s*:\s*&\[u8\]\s*,\s*field_type\s*:\s*FieldDataType\s*,\s*field_length\s*:\s*u16\s*,?\s*\)\s*->\s*IResult<&\[u8\],\s*FieldValue>\s*\{", "FieldValue::from_field_type")
    sq = _squash(fn)
    if not sq.startswith("let(remaining,field_value)=matchfield_type{") or not sq.endswith("};Ok((remaining,field_value))"):
        raise Unrecognised("from_field_type: frame")
    arms = []
    for lhs, rhs in match_arms(fn, r"field_type"):
        mm = re.fullmatch(r"FieldDataType::([A-Za-z0-9]+)", lhs)
        if not mm or mm.group(1) not in FTYPES:
            raise Unrecognised("from_field_type pattern %r" % lhs)
        ty = FTYPES[mm.group(1)]
        r = _squash(rhs)
        a = re.fullmatch(r"\{let\(i,data_number\)=DataNumber::parse\(remaining,field_length,(true|false)\)\?;\(i,FieldValue::DataNumber\(data_number\)\)\}", r)
        if a:
            arms.append((ty, ".number %s" % a.group(1))); continue
        if r == "{let(i,taken)=take(field_length)(remaining)?;(i,FieldValue::String(String::from_utf8_lossy(taken).to_string()))}":
            arms.append((ty, ".text")); continue
        a = re.fullmatch(r"\{let\(i,taken\)=be_(u32|u128)\(remaining\)\?;letip_addr=Ipv(4|6)Addr::from\(taken\);\(i,FieldValue::Ip(4|6)Addr\(ip_addr\)\)\}", r)
        if a and a.group(2) == a.group(3) and {"4": "u32", "6": "u128"}[a.group(2)] == a.group(1):
            arms.append((ty, ".ipv%s %d" % (a.group(2), SCALAR_BYTES[a.group(1)]))); continue
        a = re.fullmatch(r"\{let\(i,taken\)=take\((\d+)_usize\)\(remaining\)\?;lettaken:&\[u8;(\d+)\]=taken\.try_into\(\)\.map_err\(\|_\|NomErr::Error\(NomError::new\(remaining,ErrorKind::Fail\)\)\)\?;"
                         r"letmac_addr=mac_address::MacAddress::from\(\*taken\)\.to_string\(\);\(i,FieldValue::MacAddr\(mac_addr\)\)\}", r)
        if a and a.group(1) == a.group(2):
            arms.append((ty, ".mac %s" % a.group(1))); continue
        a = re.fullmatch(r"\{let\(i,data_number\)=DataNumber::parse\(remaining,field_length,false\)\?;"
                         r"\(i,FieldValue::Duration\(Duration::from_(secs|millis|micros|nanos)\(<DataNumberasInto<usize>>::into\(data_number\)asu64\)\)\)\}", r)
        if a:
            arms.append((ty, ".duration %d" % DUR_UNITS[a.group(1)])); continue
        if r == "{let(i,protocol)=ProtocolTypes::parse(remaining)?;(i,FieldValue::ProtocolType(protocol))}":
            arms.append((ty, ".protocol")); continue
        if r == "{let(i,f)=f64::parse(remaining)?;(i,FieldValue::Float64(f))}":
            arms.append((ty, ".float 8")); continue
        if r == "{let(i,taken)=take(field_length)(remaining)?;(i,FieldValue::Vec(taken.to_vec()))}":
            arms.append((ty, ".bytes")); continue
        if r == "parse_unknown_fields(remaining,field_length)?":
            on = re.search(r'#\[cfg\(feature\s*=\s*"parse_unknown_fields"\)\]\s*fn\s+parse_unknown_fields\s*\(', src)
            off = re.search(r'#\[cfg\(not\(feature\s*=\s*"parse_unknown_fields"\)\)\]\s*fn\s+parse_unknown_fields\s*\(', src)
            if not on or not off:
                raise Unrecognised("parse_unknown_fields: cfg pair")
            b_on = _squash(block_after(src, on.end())[0])
            b_off = _squash(block_after(src, off.end())[0])
            if b_on != "let(i,taken)=take(field_length)(remaining)?;Ok((i,FieldValue::Vec(taken.to_vec())))":
                raise Unrecognised("parse_unknown_fields (feature on): %r" % b_on)
            if b_off != "Err(NomErr::Error(NomError::new(remaining,ErrorKind::Fail)))":
                raise Unrecognised("parse_unknown_fields (feature off): %r" % b_off)
            arms.append((ty, ".unknownGated")); continue
        raise Unrecognised("from_field_type arm %s: %r" % (lhs, r[:120]))
    if len(set(t for t, _ in arms)) != len(arms):
        raise Unrecognised("from_field_type: duplicate arm")
    return arms


def parse_export_arms(src):
    """the arms of FieldValue::to_be_bytes as descriptors (ExportArm)"""
    payload = parse_payload_enum(src, "FieldValue")
    body = find_impl(src, r"impl\s+FieldValue\s*\{")
    fn = fn_of(body, r"pub\s+fn\s+to_be_bytes\s*\(\s*&self\s*\)\s*->\s*Result<Vec<u8>,\s*std::io::Error>\s*\{", "FieldValue::to_be_bytes")
    sole_match(fn, "self", "FieldValue::to_be_bytes")
    arms = []
    for lhs, rhs in match_arms(fn, r"self"):
        mm = re.fullmatch(r"FieldValue::([A-Za-z0-9]+)\(([a-z_]+)\)", lhs)
        if not mm or mm.group(1) not in VTAGS:
            raise Unrecognised("to_be_bytes pattern %r" % lhs)
        var, x, tag = mm.group(1), mm.group(2), VTAGS[mm.group(1)]
        r = _squash(rhs)
        if r in ("Ok(%s.as_bytes().to_vec())" % x, "Ok(%s.clone())" % x) and payload.get(var) in ("String", "Vec<u8>"):
            arms.append((tag, ".held")); continue
        if r == "%s.to_be_bytes()" % x and payload.get(var) == "DataNumber":
            arms.append((tag, ".number")); continue
        if r in ("Ok(%s.to_be_bytes().to_vec())" % x, "Ok(%s.octets().to_vec())" % x) and payload.get(var) in SCALAR_BYTES:
            arms.append((tag, ".be %d" % SCALAR_BYTES[payload[var]])); continue
        if r == "Ok((u32::try_from(%s.as_secs()).map_err(std::io::Error::other)?).to_be_bytes().to_vec())" % x and payload.get(var) == "Duration":
            arms.append((tag, ".secsU32")); continue
        if r == "Ok(u8::from(*%s).to_be_bytes().to_vec())" % x and payload.get(var) == "ProtocolTypes":
            arms.append((tag, ".protoU8")); continue
        raise Unrecognised("to_be_bytes arm %s: %r" % (lhs, r[:120]))
    if len(set(t for t, _ in arms)) != len(arms):
        raise Unrecognised("to_be_bytes: duplicate arm")
    return arms


def parse_dn_export_arms(src):
    """DataNumber::to_be_bytes arms (DnExportArm) and the From<DataNumber> for usize casts"""
    payload = parse_payload_enum(src, "DataNumber")
    body = find_impl(src, r"impl\s+DataNumber\s*\{")
    fn = fn_of(body, r"(?:pub\s+)?fn\s+to_be_bytes\s*\(\s*&self\s*\)\s*->\s*Result<Vec<u8>,\s*std::io::Error>\s*\{", "DataNumber::to_be_bytes")
    sole_match(fn, "self", "DataNumber::to_be_bytes")
    arms = []
    for lhs, rhs in match_arms(fn, r"self"):
        mm = re.fullmatch(r"DataNumber::([A-Z0-9a-z]+)\(([a-z_]+)\)", lhs)
        if not mm or mm.group(1) not in payload:
            raise Unrecognised("DataNumber::to_be_bytes pattern %r" % lhs)
        var, x = mm.group(1), mm.group(2)
        r = _squash(rhs)
        if r == "Ok(%s.to_be_bytes().to_vec())" % x and payload[var] in SCALAR_BYTES:
            arms.append((var.lower(), ".native %d" % SCALAR_BYTES[payload[var]])); continue
        a = re.fullmatch(r"\{letmutwtr=Vec::new\(\);wtr\.write_([ui])24::<BigEndian>\(\*%s\)\?;Ok\(wtr\)\}" % x, r)
        if a and payload[var] == {"u": "u32", "i": "i32"}[a.group(1)]:
            arms.append((var.lower(), ".writeU24" if a.group(1) == "u" else ".writeI24")); continue
        raise Unrecognised("DataNumber::to_be_bytes arm %s: %r" % (lhs, r[:120]))
    ub = find_impl(src, r"impl\s+From<DataNumber>\s+for\s+usize\s*\{")
    sole_match(sole_fn(ub, "fnfrom(val:DataNumber)->Self", "From<DataNumber> for usize"), "val", "From<DataNumber> for usize")
    casts = []
    for lhs, rhs in match_arms(ub, r"val"):
        mm = re.fullmatch(r"DataNumber::([A-Z0-9a-z]+)\(([a-z_]+)\)", lhs)
        if not mm or mm.group(1) not in payload or _squash(rhs) != "%sasusize" % mm.group(2):
            raise Unrecognised("From<DataNumber> for usize arm %r => %r" % (lhs, rhs))
        casts.append(mm.group(1).lower())
    if sorted(casts) != sorted(v.lower() for v in payload):
        raise Unrecognised("From<DataNumber> for usize: arms %r" % casts)
    return {"export": arms, "usizeCasts": sorted(casts)}


def parse_conversion_arms(src):
    """the conversions the common view goes through (data_number.rs): `impl_try_from!( u8 => U8, … )` (macro body checked
    verbatim), `TryFrom<&FieldValue> for String`, `TryFrom<&FieldValue> for IpAddr`"""
    m = re.search(r"macro_rules!\s*impl_try_from\s*\{", src)
    if not m:
        raise Unrecognised("impl_try_from! macro")
    body = _squash(block_after(src, m.start())[0])
    want = ("($($t:ty=>$v:ident),*;$($s:ty=>$sv:ident),*)=>{$(implTryFrom<&DataNumber>for$t{typeError=DataNumberError;fntry_from(val:&DataNumber)->Result<Self,Self::Error>"
            "{matchval{DataNumber::$v(i)=>Ok(*i),_=>Err(DataNumberError::InvalidDataType),}}}implTryFrom<&FieldValue>for$t{typeError=FieldValueError;"
            "fntry_from(value:&FieldValue)->Result<Self,Self::Error>{matchvalue{FieldValue::DataNumber(d)=>{letd:$t=d.try_into().map_err(|_|FieldValueError::InvalidDataType)?;Ok(d)}"
            "_=>Err(FieldValueError::InvalidDataType),}}})*};")
    if body != want:
        raise Unrecognised("impl_try_from! body changed")
    m = re.search(r"impl_try_from!\s*\(", src[m.end():])
    if not m:
        raise Unrecognised("impl_try_from! invocation")
    inv = re.search(r"impl_try_from!\s*\(([^;]*);\s*\)\s*;", src)
    if not inv:
        raise Unrecognised("impl_try_from! invocation shape")
    nums = []
    for item in inv.group(1).split(","):
        item = item.strip()
        if not item:
            continue
        mm = re.fullmatch(r"([iu]\d+)\s*=>\s*([IU]\d+)", item)
        if not mm:
            raise Unrecognised("impl_try_from! item %r" % item)
        nums.append((mm.group(1), mm.group(2).lower()))
    def arms_of(target):
        b = find_impl(src, r"impl\s+TryFrom<&FieldValue>\s+for\s+%s\s*\{" % target)
        return [(l, _squash(r)) for l, r in match_arms(b, r"value")]
    st = arms_of("String")
    if st != [("FieldValue::String(s)", "Ok(s.clone())"), ("FieldValue::MacAddr(s)", "Ok(s.to_string())"), ("_", "Err(FieldValueError::InvalidDataType)")]:
        raise Unrecognised("TryFrom<&FieldValue> for String: %r" % st)
    ip = arms_of("IpAddr")
    if ip != [("FieldValue::Ip4Addr(ip)", "Ok(IpAddr::V4(*ip))"), ("FieldValue::Ip6Addr(ip)", "Ok(IpAddr::V6(*ip))"), ("_", "Err(FieldValueError::InvalidDataType)")]:
        raise Unrecognised("TryFrom<&FieldValue> for IpAddr: %r" % ip)
    return {"nums": nums, "string": ["str", "mac"], "ip": ["ip4", "ip6"]}


def parse_common_flow_types(common):
    """pub struct NetflowCommonFlowSet { pub x: Option<T>, … } -> [(x, T)] : the target type selects the conversion"""
    m = re.search(r"pub\s+struct\s+NetflowCommonFlowSet\s*\{", common)
    if not m:
        raise Unrecognised("NetflowCommonFlowSet")
    body, _ = block_after(common, m.start())
    out = []
    for item in body.split(","):
        item = re.sub(r"#\[[^\]]*\]", "", item).strip()
        if not item:
            continue
        mm = re.fullmatch(r"pub\s+([a-z_0-9]+)\s*:\s*Option<([A-Za-z0-9]+)>", item)
        if not mm:
            raise Unrecognised("NetflowCommonFlowSet field %r" % item)
        out.append((mm.group(1), mm.group(2)))
    return out


def blank_strings(s):
    """string / raw-string / char literals replaced by empty ones (after strip_comments): text inside a literal is not code"""
    s = re.sub(r'b?r(#*)".*?"\1', '""', s, flags=re.S)
    s = re.sub(r'"(?:[^"\\]|\\.)*"', '""', s, flags=re.S)
    return s


PLAIN_STATIC_TY = re.compile(r"&?(?:'static)?(?:str|u8|u16|u32|u64|u128|usize|i8|i16|i32|i64|isize|bool|char|f64|\[&?(?:'static)?(?:str|u8|u16|u32|u64|usize|i32|i64|bool);?\w*\])")


def scan_globals():
    """state that outlives a call: `static mut`, lazily initialised or interior-mutable statics, thread locals.  A `static` whose type is a
    plain scalar, a `&str` or an array / slice of those is a constant table, not state."""
    bad = []
    for root, _, files in os.walk(SRC):
        for fn in sorted(files):
            if fn.endswith(".rs"):
                txt = blank_strings(strip_comments(open(os.path.join(root, fn)).read()))
                for pat in (r"\bstatic\s+mut\b", r"\bthread_local\s*!", r"\bOnceLock\b", r"\blazy_static\s*!", r"\bOnceCell\b", r"\bLazyLock\b", r"\bLazy\b",
                            r"\binclude\s*!", r"\binclude_str\s*!", r"\binclude_bytes\s*!"):
                    if re.search(pat, txt):
                        bad.append((fn, pat))
                for m in re.finditer(r"\bstatic\s+([A-Za-z_0-9]+)\s*:\s*([^=;]+?)\s*[=;]", txt):
                    ty = re.sub(r"\s+", "", m.group(2))
                    if not PLAIN_STATIC_TY.fullmatch(ty):
                        bad.append((fn, "static %s: %s" % (m.group(1), ty)))
    return bad


def scan_cfg():
    """conditional compilation the translator does not understand could hide the code it reads behind a dead branch (or swap in
    a different definition): the only `cfg`s accepted are `#[cfg(test)]` on trailing test modules and the pair of
    `parse_unknown_fields` attributes in data_number.rs that the `unknownFields` item reads; `cfg!`, `cfg_attr` and macro_rules
    are refused outright"""
    seen = []
    for root, _, files in sorted(os.walk(SRC)):
        for fn in sorted(files):
            if not fn.endswith(".rs") or fn == "tests.rs":
                continue
            txt = strip_comments(open(os.path.join(root, fn)).read())
            for m in re.finditer(r"#\s*!?\s*\[\s*cfg\b([^\]]*)\]|\bcfg\s*!\s*\(|\bcfg_attr\b|\bmacro_rules\s*!", txt):
                seen.append((fn, squash(m.group(0))))
    allowed_feature = [("data_number.rs", '#[cfg(feature="parse_unknown_fields")]'), ("data_number.rs", '#[cfg(not(feature="parse_unknown_fields"))]'),
                       ("data_number.rs", "macro_rules!")]          # impl_try_from!, whose body the convArms item checks
    rest = [x for x in seen if x[1] != "#[cfg(test)]"]
    if sorted(rest) != sorted(allowed_feature):
        raise Unrecognised("conditional compilation outside the recognised set: %r" % (sorted(set(rest) - set(allowed_feature)) or rest,))
    for root, _, files in sorted(os.walk(SRC)):
        for fn in sorted(files):
            if fn.endswith(".rs") and fn != "tests.rs":
                txt = strip_comments(open(os.path.join(root, fn)).read())
                i = txt.find("#[cfg(test)]")
                if i >= 0 and not re.match(r"#\[cfg\(test\)\]\s*mod\s+[a-z0-9_]+\s*(\{|;)", txt[i:]):
                    raise Unrecognised("#[cfg(test)] on something other than a module in %s" % fn)
                if i >= 0 and txt.count("#[cfg(test)]") != 1:
                    raise Unrecognised("#[cfg(test)] more than once in %s" % fn)
    return {"cfgShape": True}


def harvest_literals():
    """every integer literal of the non-test library source (a dictionary of 'interesting' values for the generators:
    ids, lengths and counts are drawn from these and their neighbours, so that a constant introduced by an edit is
    exercised without anybody having to think of it)"""
    vals = set()
    for root, _, files in os.walk(SRC):
        for fn in files:
            if not fn.endswith(".rs") or fn == "tests.rs":
                continue
            txt = strip_comments(open(os.path.join(root, fn)).read())
            txt = re.sub(r"#\[cfg\(test\)\].*", "", txt, flags=re.S)          # drop trailing test modules
            if fn in ("protocol.rs", "v9_lookup.rs", "ipfix_lookup.rs"):
                continue                                                     # pure tables: thousands of literals, all covered by the table items
            for m in re.finditer(r"(?<![A-Za-z0-9_.])(0x[0-9a-fA-F_]+|\d[\d_]*)(?:_?(?:u8|u16|u32|u64|u128|usize|i32|i64))?(?![A-Za-z0-9_.])", txt):
                t = m.group(1).replace("_", "")
                try:
                    v = int(t, 16) if t.startswith("0x") else int(t)
                except ValueError:
                    continue
                if v < 2 ** 64:
                    vals.add(v)
    return sorted(vals)


def lean_list(items):
    return "[" + ", ".join(items) + "]"


def lean_str(s):
    return '"' + s + '"'


def gen():
    problems = {}
    out = {}
    IPV4_FIELDS.clear()

    def attempt(key, f):
        try:
            out[key] = f()
        except Unrecognised as e:
            problems[key] = str(e)
        except Exception as e:  # malformed source etc.
            problems[key] = "internal: %r" % (e,)

    proto = strip_comments(read("protocol.rs"))
    v9l = strip_comments(read("variable_versions/v9_lookup.rs"))
    ipl = strip_comments(read("variable_versions/ipfix_lookup.rs"))
    dn = strip_comments(read("variable_versions/data_number.rs"))
    v5 = strip_comments(read("static_versions/v5.rs"))
    v7 = strip_comments(read("static_versions/v7.rs"))
    v9 = strip_nom_string_comments(strip_comments(read("variable_versions/v9.rs")))
    ipf = strip_nom_string_comments(strip_comments(read("variable_versions/ipfix.rs")))
    lib = strip_comments(read("lib.rs"))
    # ---- control skeleton (translate_ctl.py): one item per recognised shape
    S = {"lib": lib, "v5": v5, "v7": v7, "v9": v9, "ipf": ipf, "proto": proto}
    for key, f in translate_ctl.ITEMS:
        attempt(key, (lambda f=f: f(S)))
    # ---- the V9 / IPFIX exporters, statement by statement (translate_export.py)
    attempt("v9ExportProg", lambda: translate_export.translate(v9, "V9"))
    attempt("ipExportProg", lambda: translate_export.translate(ipf, "IPFix"))
    # ---- derive(Nom) template-record structs as field programs (translate_nom.py)
    attempt("nomStructs", lambda: translate_nom.translate(v9, ipf))
    # ---- JSON member schema of the derive(Serialize) types (translate_serde.py)
    attempt("serdeSchema", lambda: translate_serde.translate({"lib": lib, "v9": v9, "ipf": ipf, "dn": dn, "v5": v5, "v7": v7}))

    # ---- protocol tables
    def f_proto():
        en = dict(parse_enum(proto, "ProtocolTypes"))
        if any(d > 255 for d in en.values()):
            raise Unrecognised("ProtocolTypes discriminant > 255")
        ft, fd = from_num_table(proto, "u8", "ProtocolTypes")
        body = find_impl(proto, r"impl\s+From<ProtocolTypes>\s+for\s+u8\s*\{")
        sole_match(sole_fn(body, "fnfrom(item:ProtocolTypes)->Self", "From<ProtocolTypes> for u8"), "item", "From<ProtocolTypes> for u8")
        to = {}
        for lhs, rhs in match_arms(body, r"item"):
            mm = re.fullmatch(r"ProtocolTypes::([A-Za-z0-9_]+)", lhs)
            if not mm or not re.fullmatch(r"\d+", rhs):
                raise Unrecognised("From<ProtocolTypes> for u8 arm %r => %r" % (lhs, rhs))
            to.setdefault(en[mm.group(1)], int(rhs))
        if set(to) != set(en.values()):
            raise Unrecognised("From<ProtocolTypes> for u8 not exhaustive")
        return {
            "discs": sorted(en.values()),
            "names": sorted(((d, n) for n, d in en.items())),
            "fromU8": sorted((n, en[v]) for n, v in ft.items()),
            "fromU8Default": en[fd],
            "toU8": sorted(to.items()),
        }
    attempt("proto", f_proto)

    def f_scope():
        en = dict(parse_enum(v9l, "ScopeFieldType"))
        ft, fd = from_num_table(v9l, "u16", "ScopeFieldType")
        # which variants ScopeDataField::parse accepts: the impl is the single function `parse`, which takes `field_length` bytes
        # and then is one match on the field type; an accepting arm returns exactly the taken bytes, the default arm fails
        body = find_impl(v9, r"impl\s+ScopeDataField\s*\{")
        fn = sole_fn(body, "fnparse<'a>(input:&'a[u8],template_field:&OptionsTemplateScopeField)->IResult<&'a[u8],ScopeDataField>", "ScopeDataField::parse")
        sq = squash(fn)
        pre = "let(new_input,field_value)=take(template_field.field_length)(input)?;"
        if not sq.startswith(pre):
            raise Unrecognised("ScopeDataField::parse: prologue")
        sole_match(fn[fn.index("?;") + 2:], "template_field.field_type", "ScopeDataField::parse")
        arms = match_arms(body, r"template_field\.field_type")
        known, has_default, targets = [], False, []
        for lhs, rhs in arms:
            mm = re.fullmatch(r"ScopeFieldType::([A-Za-z0-9_]+)", lhs)
            r = squash(rhs)
            if r.startswith("{") and r.endswith("}"):
                r = r[1:-1]
            ok = re.fullmatch(r"Ok\(\(new_input,ScopeDataField::([A-Za-z0-9_]+)\(field_value\.to_vec\(\)\)\)\)", r)
            if mm and ok:
                known.append(en[mm.group(1)])
                targets.append(ok.group(1))
            elif lhs == "_" and r == "Err(nom::Err::Error(nom::error::Error::new(input,nom::error::ErrorKind::Verify)))":
                has_default = True
            else:
                raise Unrecognised("ScopeDataField::parse arm %r => %r" % (lhs, r[:80]))
        if not has_default or len(set(known)) != len(known) or len(set(targets)) != len(targets):
            raise Unrecognised("ScopeDataField::parse: default arm / duplicate arms")
        return {"table": sorted((n, en[v]) for n, v in ft.items()), "default": en[fd], "known": sorted(known), "enum": en}
    attempt("scope", f_scope)

    def f_fields(src, enum_name):
        def g():
            en = dict(parse_enum(src, enum_name))
            ft, fd = from_num_table(src, "u16", enum_name)
            ty, tyd = ftype_table(src, enum_name)
            return {
                "discs": sorted(en.items(), key=lambda x: x[1]),
                "from": sorted((n, en[v]) for n, v in ft.items()),
                "fromDefault": en[fd],
                "ty": sorted(ty.items()),
                "tyDefault": tyd,
                "enum": en,
            }
        return g
    attempt("v9field", f_fields(v9l, "V9Field"))
    attempt("ipfield", f_fields(ipl, "IPFixField"))
    attempt("dnArms", lambda: parse_dn_arms(dn))
    attempt("valueArms", lambda: parse_value_arms(dn))
    attempt("exportArms", lambda: parse_export_arms(dn))
    attempt("dnExport", lambda: parse_dn_export_arms(dn))
    attempt("convArms", lambda: parse_conversion_arms(dn))

    for key, src, name, nth in [
        ("v5Hdr", v5, "Header", 0), ("v5Rec", v5, "FlowSet", 0), ("v7Hdr", v7, "Header", 0), ("v7Rec", v7, "FlowSet", 0),
        ("v9Hdr", v9, "Header", 0), ("v9SetHdr", v9, "FlowSetHeader", 0), ("ipHdr", ipf, "Header", 0),
        ("ipSetHdr", ipf, "FlowSetHeader", 0),
    ]:
        attempt(key, (lambda s, n, k: (lambda: parse_layout(s, n, k)))(src, name, nth))

    # the Ipv4Addr-typed fields are collected while the layouts are parsed: an item of its own, so that a layout that fell back to the
    # snapshot does not silently shrink the list
    def f_ipv4():
        for k_ in ("v5Rec", "v7Rec", "v5Hdr", "v7Hdr"):
            if k_ in problems:
                raise Unrecognised("layout %s not recognised" % k_)
        return sorted(IPV4_FIELDS)
    IPV4_FIELDS_SNAPSHOT_KEY = "ipv4Fields"
    attempt(IPV4_FIELDS_SNAPSHOT_KEY, f_ipv4)

    attempt("v5Order", lambda: parse_export_order(v5, "V5"))
    attempt("v7Order", lambda: parse_export_order(v7, "V7"))
    attempt("v9HdrOrder", lambda: parse_hdr_export_prefix(v9, "V9"))
    attempt("ipHdrOrder", lambda: parse_hdr_export_prefix(ipf, "IPFix"))
    attempt("v9TemplateId", lambda: parse_const(v9, "TEMPLATE_ID"))
    attempt("v9OptTemplateId", lambda: parse_const(v9, "OPTIONS_TEMPLATE_ID"))
    attempt("ipOptTemplateId", lambda: parse_const(ipf, "OPTIONS_TEMPLATE_ID"))
    attempt("ipSetMinRange", lambda: parse_const(ipf, "SET_MIN_RANGE"))

    def f_default_allowed():
        body = find_impl(lib, r"impl\s+Default\s+for\s+NetflowParser\s*\{")
        sq = squash(sole_fn(body, "fndefault()->Self", "NetflowParser::default"))
        m = re.fullmatch(r"Self\{v9_parser:V9Parser::default\(\),ipfix_parser:IPFixParser::default\(\),allowed_versions:\[([0-9,]+)\]\.iter\(\)\.cloned\(\)\.collect\(\),?\}", sq)
        if not m:
            raise Unrecognised("default allowed_versions: %r" % sq[:120])
        return [int(x) for x in m.group(1).split(",") if x.strip()]
    attempt("defaultAllowed", f_default_allowed)

    def f_dispatch():
        m = re.search(r"fn\s+parse_packet_by_version", lib)
        body, _ = block_after(lib, m.start())
        arms = match_arms(body, r"version")
        d = []
        for lhs, rhs in arms:
            if lhs == "_":
                if "UnknownVersion" not in rhs:
                    raise Unrecognised("dispatch default %r" % rhs)
                continue
            mm = re.fullmatch(r"(V5Parser::parse|V7Parser::parse|self\.v9_parser\.parse|self\.ipfix_parser\.parse)\(packet\)", rhs)
            if not re.fullmatch(r"\d+", lhs) or not mm:
                raise Unrecognised("dispatch arm %r => %r" % (lhs, rhs))
            d.append((int(lhs), {"V5Parser::parse": 5, "V7Parser::parse": 7, "self.v9_parser.parse": 9, "self.ipfix_parser.parse": 10}[mm.group(1)]))
        return d
    attempt("dispatch", f_dispatch)
    attempt("globals", lambda: scan_globals())
    attempt("shape_cfg", lambda: scan_cfg())
    # ---- closure: token fingerprints of every source file, the file set and the manifest (translate_text.py)
    for key, f in translate_text.items(SRC, strip_comments):
        attempt(key, f)
    common = strip_comments(read("netflow_common.rs"))
    attempt("commonFlowTypes", lambda: parse_common_flow_types(common))
    attempt("shape_commonStatic", lambda: parse_common_static(common))
    attempt("commonV9", lambda: parse_common_keys(common, "V9", "V9Field", out["v9field"]["enum"]))
    attempt("commonIp", lambda: parse_common_keys(common, "IPFix", "IPFixField", out["ipfield"]["enum"]))
    return out, problems


def layout_lean(fields):
    names = [f[0] for f in fields]
    items = []
    for n, k, tw in fields:
        if k[0] == "wire":
            ks = ".wire %d" % k[1]
        elif k[0] == "const":
            ks = ".const %d" % k[1]
        else:
            if k[1] not in names:
                raise Unrecognised("protoOf source %s" % k[1])
            ks = ".protoOf %d" % names.index(k[1])
        items.append("{ name := %s, kind := %s, tw := %d }" % (lean_str(n), ks, tw))
    return "[\n    " + ",\n    ".join(items) + " ]"


def pairs(lst):
    return lean_list("(%d, %d)" % (a, b) for a, b in lst)


def emit(out):
    L = []
    A = L.append
    A("/- GENERATED by tools/translate.py from the Rust source of /repo — do not edit. -/")
    A("import NetflowModel.Types")
    A("import NetflowModel.Arms")
    A("namespace Netflow.Generated")
    A("open Netflow")
    A("")
    p = out["proto"]
    A("/-- declared discriminants of `ProtocolTypes` -/")
    A("def protoDiscs : List Nat := %s" % lean_list(str(d) for d in p["discs"]))
    A("/-- variant names by discriminant (documentation / spec comparison) -/")
    A("def protoNames : List (Nat × String) := %s" % lean_list('(%d, "%s")' % (d, n) for d, n in p["names"]))
    A("/-- `From<u8> for ProtocolTypes` : explicit arms (number, discriminant of the result) -/")
    A("def protoFromU8Tbl : List (Nat × Nat) := %s" % pairs(p["fromU8"]))
    A("def protoFromU8Default : Nat := %d" % p["fromU8Default"])
    A("/-- `From<ProtocolTypes> for u8` by discriminant -/")
    A("def protoToU8Tbl : List (Nat × Nat) := %s" % pairs(p["toU8"]))
    s = out["scope"]
    A("def scopeTbl : List (Nat × Nat) := %s" % pairs(s["table"]))
    A("def scopeDefault : Nat := %d" % s["default"])
    A("def scopeKnownDiscs : List Nat := %s" % lean_list(str(d) for d in s["known"]))
    for key, nm in (("v9field", "v9"), ("ipfield", "ip")):
        f = out[key]
        A("/-- `From<u16>` arms: (number, discriminant) -/")
        A("def %sFieldTbl : List (Nat × Nat) := %s" % (nm, pairs(f["from"])))
        A("def %sFieldDefault : Nat := %d" % (nm, f["fromDefault"]))
        A("/-- `From<_> for FieldDataType` arms by discriminant -/")
        A("def %sTyTbl : List (Nat × FType) := %s" % (nm, lean_list("(%d, .%s)" % (a, b) for a, b in f["ty"])))
        A("def %sTyDefault : FType := .%s" % (nm, f["tyDefault"]))
        A("def %sFieldNames : List (Nat × String) := %s" % (nm, lean_list('(%d, "%s")' % (d, n) for n, d in f["discs"])))
    A("def ipEnterprise : Nat := %d" % out["ipfield"]["enum"]["Enterprise"])
    A("def dnArms : DnArms := %s" % lean_list("((%d, %s), .%s)" % (l, "true" if sg else "false", v) for (l, sg), v in out["dnArms"]))
    for key in ("v5Hdr", "v5Rec", "v7Hdr", "v7Rec", "v9Hdr", "v9SetHdr", "ipHdr", "ipSetHdr"):
        A("def %s : Layout := %s" % (key, layout_lean(out[key])))
    A("def v5HdrOrder : List String := %s" % lean_list(lean_str(x) for x in out["v5Order"][0]))
    A("def v5RecOrder : List String := %s" % lean_list(lean_str(x) for x in out["v5Order"][1]))
    A("def v7HdrOrder : List String := %s" % lean_list(lean_str(x) for x in out["v7Order"][0]))
    A("def v7RecOrder : List String := %s" % lean_list(lean_str(x) for x in out["v7Order"][1]))
    A("def v9HdrOrder : List String := %s" % lean_list(lean_str(x) for x in out["v9HdrOrder"]))
    A("def ipHdrOrder : List String := %s" % lean_list(lean_str(x) for x in out["ipHdrOrder"]))
    A("def defaultAllowed : List Nat := %s" % lean_list(str(x) for x in out["defaultAllowed"]))
    A("/-- `match version` arms of `parse_packet_by_version`: (literal, parser it dispatches to) -/")
    A("def dispatch : List (Nat × Nat) := %s" % pairs(out["dispatch"]))
    A("/-- no `static mut` / `thread_local!` / `OnceLock` / `lazy_static!` under src/ -/")
    for key in ("commonV9", "commonIp"):
        k = out[key]
        A("def %s : CommonKeys := { %s, ts := %s }" % (key, ", ".join("%s := %d" % (n, k[n]) for n in ("src4", "src6", "dst4", "dst6", "sport", "dport", "proto", "first", "last", "smac", "dmac")), lean_str(k["ts"])))
    A("/-- struct fields of type `Ipv4Addr` (serialised as dotted strings) -/")
    A("def ipv4Fields : List String := %s" % lean_list(lean_str(x) for x in sorted(out["ipv4Fields"])))
    A("def scopeNames : List (Nat × String) := %s" % lean_list('(%d, "%s")' % (d, n) for n, d in sorted(out["scope"]["enum"].items(), key=lambda x: x[1])))
    A("def noGlobals : Bool := %s" % ("true" if not out["globals"] else "false"))
    A("")
    A("/-- arms of `FieldValue::from_field_type`, one per `FieldDataType` (data_number.rs) -/")
    A("def valueArms : ValueArms := %s" % lean_list("(.%s, %s)" % (t, a) for t, a in out["valueArms"]))
    A("/-- arms of `FieldValue::to_be_bytes` -/")
    A("def exportArms : ExportArms := %s" % lean_list("(.%s, %s)" % (t, a) for t, a in out["exportArms"]))
    A("/-- arms of `DataNumber::to_be_bytes` -/")
    A("def dnExportArms : DnExportArms := %s" % lean_list("(.%s, %s)" % (t, a) for t, a in out["dnExport"]["export"]))
    A("/-- variants whose `From<DataNumber> for usize` arm is the plain cast `i as usize` (all of them) -/")
    A("def dnUsizeCasts : List DnArm := %s" % lean_list(".%s" % v for v in out["dnExport"]["usizeCasts"]))
    A("/-- `impl_try_from!(…)`: the integer type a common-view conversion asks for -> the only `DataNumber` variant it accepts -/")
    A("def convNumArms : List (String × DnArm) := %s" % lean_list('("%s", .%s)' % (t, v) for t, v in out["convArms"]["nums"]))
    A("/-- value kinds accepted by `TryFrom<&FieldValue> for String` / `for IpAddr` -/")
    A("def convStringTags : List VTag := %s" % lean_list(".%s" % v for v in out["convArms"]["string"]))
    A("def convIpTags : List VTag := %s" % lean_list(".%s" % v for v in out["convArms"]["ip"]))
    A("/-- fields of `NetflowCommonFlowSet` with the type inside their `Option` (it selects the `TryFrom` impl) -/")
    A("def commonFlowTypes : List (String × String) := %s" % lean_list('("%s", "%s")' % (a, b) for a, b in out["commonFlowTypes"]))
    A("")
    A("def lookupD {β : Type} (tbl : List (Nat × β)) (d : β) (n : Nat) : β := (tbl.lookup n).getD d")
    A("")
    A("def tables : Tables where")
    A("  protoFromU8 := lookupD protoFromU8Tbl protoFromU8Default")
    A("  protoToU8 := lookupD protoToU8Tbl 0")
    A("  protoParse := fun n => if protoDiscs.contains n then some n else none")
    A("  v9Field := lookupD v9FieldTbl v9FieldDefault")
    A("  v9Ty := lookupD v9TyTbl v9TyDefault")
    A("  scopeKnown := fun n => scopeKnownDiscs.contains (lookupD scopeTbl scopeDefault n)")
    A("  scopeField := lookupD scopeTbl scopeDefault")
    A("  ipField := lookupD ipFieldTbl ipFieldDefault")
    A("  ipTy := lookupD ipTyTbl ipTyDefault")
    A("  ipEnterprise := ipEnterprise")
    A("  dnArms := dnArms")
    for key in ("v5Hdr", "v5Rec", "v7Hdr", "v7Rec", "v9Hdr", "v9SetHdr", "ipHdr", "ipSetHdr",
                "v5HdrOrder", "v5RecOrder", "v7HdrOrder", "v7RecOrder", "v9HdrOrder", "ipHdrOrder"):
        A("  %s := %s" % (key, key))
    A("  v9TemplateId := %d" % out["v9TemplateId"])
    A("  v9OptTemplateId := %d" % out["v9OptTemplateId"])
    A("  ipOptTemplateId := %d" % out["ipOptTemplateId"])
    A("  ipSetMinRange := %d" % out["ipSetMinRange"])
    A("  dispatch := dispatch")
    A("  commonV9 := commonV9")
    A("  commonIp := commonIp")
    A("")
    A("end Netflow.Generated")
    return "\n".join(L) + "\n"


def main():
    dest = sys.argv[1] if len(sys.argv) > 1 else os.path.join(os.path.dirname(__file__), "..", "lean", "NetflowModel", "Generated.lean")
    snap = os.path.join(os.path.dirname(os.path.abspath(__file__)), "generated_snapshot.json")
    try:
        out, problems = gen()
    except Exception as e:          # a shape so unexpected that a reader itself failed: every item falls back
        out, problems = {}, {}
        try:
            for k in json.load(open(snap)):
                problems[k] = "translator error: %r" % (e,)
        except Exception:
            pass
    summary = {"problems": problems, "fallback": []}
    if problems:
        # per-item fallback to the committed snapshot (DESIGN §1.2)
        try:
            old = json.load(open(snap))
        except Exception:
            old = {}
        for k in problems:
            if k in old:
                out[k] = old[k]
                summary["fallback"].append(k)
            else:
                print("translate.py: cannot recover item %s: %s" % (k, problems[k]), file=sys.stderr)
                print(json.dumps(summary))
                sys.exit(2)
    # JSON round trip normalises tuples -> lists; re-tuple what emit() needs
    norm = json.loads(json.dumps(out))
    norm["dnArms"] = [((a[0][0], a[0][1]), a[1]) for a in norm["dnArms"]]
    try:
        text = emit(norm)
    except Exception as e:
        # the extracted items are individually well-formed but do not fit together (e.g. a variant the emitter looks up by name was
        # renamed consistently): emit the snapshot as a whole and report every item as fallen back
        old_all = json.load(open(snap))
        summary["problems"]["emit"] = repr(e)
        summary["fallback"] = sorted(old_all.keys())
        norm = json.loads(json.dumps(old_all))
        norm["dnArms"] = [((a[0][0], a[0][1]), a[1]) for a in norm["dnArms"]]
        text = emit(norm)
    old_text = open(dest).read() if os.path.exists(dest) else None
    if old_text != text:
        with open(dest, "w") as f:
            f.write(text)
    dest_ctl = os.path.join(os.path.dirname(os.path.abspath(dest)), "GeneratedCtl.lean")
    text_ctl = translate_ctl.emit_lean(norm)
    old_ctl = open(dest_ctl).read() if os.path.exists(dest_ctl) else None
    if old_ctl != text_ctl:
        with open(dest_ctl, "w") as f:
            f.write(text_ctl)
    dest_exp = os.path.join(os.path.dirname(os.path.abspath(dest)), "GeneratedExport.lean")
    text_exp = translate_export.emit_lean(norm["v9ExportProg"], norm["ipExportProg"])
    old_exp = open(dest_exp).read() if os.path.exists(dest_exp) else None
    if old_exp != text_exp:
        with open(dest_exp, "w") as f:
            f.write(text_exp)
    dest_ser = os.path.join(os.path.dirname(os.path.abspath(dest)), "GeneratedSerde.lean")
    text_ser = translate_serde.emit_lean(norm["serdeSchema"])
    old_ser = open(dest_ser).read() if os.path.exists(dest_ser) else None
    if old_ser != text_ser:
        with open(dest_ser, "w") as f:
            f.write(text_ser)
    dest_nom = os.path.join(os.path.dirname(os.path.abspath(dest)), "GeneratedNom.lean")
    text_nom = translate_nom.emit_lean(norm["nomStructs"])
    old_nom = open(dest_nom).read() if os.path.exists(dest_nom) else None
    if old_nom != text_nom:
        with open(dest_nom, "w") as f:
            f.write(text_nom)
    if os.environ.get("NF_WRITE_SNAPSHOT") == "1" and not problems:
        json.dump(norm, open(snap, "w"), indent=0, sort_keys=True)
    try:
        lits = harvest_literals()
        json.dump(lits, open(os.path.join(os.path.dirname(os.path.abspath(__file__)), "..", "work", "literals.json"), "w"))
        summary["literals"] = len(lits)
    except Exception as e:
        summary["literals_error"] = repr(e)
    summary["changed"] = (old_text != text) or (old_ctl != text_ctl) or (old_exp != text_exp)
    summary["items"] = sorted(out.keys())
    print(json.dumps(summary))
    for k, v in problems.items():
        print("translate.py: unrecognised %s: %s (snapshot used)" % (k, v), file=sys.stderr)


if __name__ == "__main__":
    main()
