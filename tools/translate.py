#!/usr/bin/env python3
"""translate.py — Rust source of netflow_parser  ->  lean/NetflowModel/Generated.lean

Re-reads the *data and straight-line layout* parts of /repo on every run (DESIGN §1.2):
  protocol.rs            enum discriminants, From<u8>, From<ProtocolTypes> for u8
  v9_lookup.rs           ScopeFieldType, V9Field discriminants, From<u16>, From<V9Field> for FieldDataType
  ipfix_lookup.rs        IPFixField discriminants, From<u16>, From<IPFixField> for FieldDataType
  data_number.rs         DataNumber::parse arm table
  v5.rs v7.rs v9.rs ipfix.rs   derive(Nom) layouts of the scalar structs, to_be_bytes emission orders,
                         dispatch constants
  lib.rs                 default allowed versions, version dispatch arms
  src/**                 absence of global mutable state

Every item is parsed with an explicit grammar; an unrecognised shape raises Unrecognised for that
item (reported on stderr and in the JSON summary); the caller then keeps the committed snapshot
value for that item and must rely on the correspondence run for it.
"""
import json, os, re, sys

import translate_ctl
import translate_export
import translate_serde
import translate_nom
REPO = os.environ.get("NF_REPO", "/repo")
SRC = os.path.join(REPO, "src")


class Unrecognised(Exception):
    pass


translate_ctl.Unrecognised = Unrecognised
translate_export.Unrecognised = Unrecognised
translate_serde.Unrecognised = Unrecognised
translate_nom.Unrecognised = Unrecognised


def read(rel):
    with open(os.path.join(SRC, rel)) as f:
        return f.read()


def strip_comments(s):
    s = re.sub(r"/\*.*?\*/", "", s, flags=re.S)
    s = re.sub(r"//[^\n]*", "", s)
    return s


def block_after(s, start_idx):
    """return text of the {...} block whose '{' is the first one at/after start_idx"""
    i = s.index("{", start_idx)
    depth = 0
    for j in range(i, len(s)):
        if s[j] == "{":
            depth += 1
        elif s[j] == "}":
            depth -= 1
            if depth == 0:
                return s[i + 1 : j], j + 1
    raise Unrecognised("unbalanced braces")


def parse_enum(src, name):
    m = re.search(r"pub\s+enum\s+%s\s*\{" % re.escape(name), src)
    if not m:
        raise Unrecognised("enum %s not found" % name)
    body, _ = block_after(src, m.start())
    body = re.sub(r"#\[[^\]]*\]", "", body)
    out = []
    nxt = 0
    for item in body.split(","):
        item = item.strip()
        if not item:
            continue
        mm = re.fullmatch(r"([A-Za-z_][A-Za-z0-9_]*)(?:\s*=\s*(\d+))?", item)
        if not mm:
            raise Unrecognised("enum %s: variant %r" % (name, item))
        d = int(mm.group(2)) if mm.group(2) is not None else nxt
        out.append((mm.group(1), d))
        nxt = d + 1
    names = [n for n, _ in out]
    if len(set(names)) != len(names):
        raise Unrecognised("enum %s: duplicate variant" % name)
    return out


def find_impl(src, header_re):
    m = re.search(header_re, src)
    if not m:
        raise Unrecognised("impl %s not found" % header_re)
    body, _ = block_after(src, m.start())
    return body


def match_arms(body, scrutinee_re):
    m = re.search(r"match\s+%s\s*\{" % scrutinee_re, body)
    if not m:
        raise Unrecognised("match on %s not found" % scrutinee_re)
    arms, _ = block_after(body, m.start())
    res = []
    parts, depth, cur = [], 0, ""
    for ch in arms:
        if ch in "([{":
            depth += 1
        if ch in ")]}":
            depth -= 1
        if ch == "," and depth == 0:
            parts.append(cur)
            cur = ""
            continue
        cur += ch
        if ch == "}" and depth == 0 and re.search(r"=>\s*\{", cur):
            parts.append(cur)
            cur = ""
    if cur.strip():
        parts.append(cur)
    for arm in parts:
        arm = arm.strip()
        if not arm:
            continue
        mm = re.fullmatch(r"(.+?)\s*=>\s*(.+)", arm, flags=re.S)
        if not mm:
            raise Unrecognised("match arm %r" % arm)
        res.append((mm.group(1).strip(), mm.group(2).strip()))
    return res


def from_num_table(src, num_ty, enum_name):
    """impl From<u16> for Enum { match item { N => Enum::X, _ => Enum::Y } }  ->  ({N: X}, default)"""
    body = find_impl(src, r"impl\s+From<%s>\s+for\s+%s\s*\{" % (num_ty, enum_name))
    tbl, default = {}, None
    for lhs, rhs in match_arms(body, r"item"):
        mm = re.fullmatch(r"%s::([A-Za-z0-9_]+)" % enum_name, rhs)
        if not mm:
            raise Unrecognised("From<%s> for %s: rhs %r" % (num_ty, enum_name, rhs))
        if lhs == "_":
            default = mm.group(1)
        elif re.fullmatch(r"\d+", lhs):
            if int(lhs) in tbl:
                continue  # first arm wins (rustc: later one unreachable)
            tbl[int(lhs)] = mm.group(1)
        else:
            raise Unrecognised("From<%s> for %s: pattern %r" % (num_ty, enum_name, lhs))
    if default is None:
        raise Unrecognised("From<%s> for %s: no default arm" % (num_ty, enum_name))
    return tbl, default


FTYPES = {
    "String": "str", "SignedDataNumber": "signed", "UnsignedDataNumber": "unsigned", "Float64": "f64",
    "DurationSeconds": "durS", "DurationMillis": "durMs", "DurationMicros": "durUs", "DurationNanos": "durNs",
    "Ip4Addr": "ip4", "Ip6Addr": "ip6", "MacAddr": "mac", "Vec": "vec", "ProtocolType": "proto", "Unknown": "unknown",
}


def ftype_table(src, enum_name):
    body = find_impl(src, r"impl\s+From<%s>\s+for\s+FieldDataType\s*\{" % enum_name)
    tbl, default = {}, None
    for lhs, rhs in match_arms(body, r"d\s+as\s+u16"):
        mm = re.fullmatch(r"FieldDataType::([A-Za-z0-9]+)", rhs)
        if not mm or mm.group(1) not in FTYPES:
            raise Unrecognised("FieldDataType arm %r" % rhs)
        if lhs == "_":
            default = FTYPES[mm.group(1)]
        elif re.fullmatch(r"\d+", lhs):
            tbl.setdefault(int(lhs), FTYPES[mm.group(1)])
        else:
            raise Unrecognised("FieldDataType pattern %r" % lhs)
    if default is None:
        raise Unrecognised("FieldDataType: no default")
    return tbl, default


PRIM = {"u8": 1, "u16": 2, "u32": 4, "u64": 8, "u128": 16}
IPV4_FIELDS = set()


def parse_layout(src, struct_name, nth=0):
    """derive(Nom) struct of scalars -> [(name, kind)]; kind = ('wire',w) | ('const',v) | ('protoOf',srcname)"""
    ms = list(re.finditer(r"pub\s+struct\s+%s\s*\{" % re.escape(struct_name), src))
    if len(ms) <= nth:
        raise Unrecognised("struct %s not found" % struct_name)
    body, _ = block_after(src, ms[nth].start())
    # split into fields with their attributes
    fields = []
    attrs = []
    pos = 0
    tok = re.compile(r"\s*(#\[(?:[^\[\]]|\[[^\]]*\])*\]|pub\s+[a-z_0-9]+\s*:\s*[A-Za-z0-9_<>:]+\s*,?)", re.S)
    while pos < len(body):
        if not body[pos:].strip():
            break
        m = tok.match(body, pos)
        if not m:
            raise Unrecognised("struct %s: cannot tokenise at %r" % (struct_name, body[pos : pos + 40]))
        t = m.group(1)
        pos = m.end()
        if t.startswith("#["):
            attrs.append(t)
            continue
        mm = re.fullmatch(r"pub\s+([a-z_0-9]+)\s*:\s*([A-Za-z0-9_<>:]+)\s*,?", t)
        name, ty = mm.group(1), mm.group(2)
        nom = [a for a in attrs if a.startswith("#[nom")]
        attrs = []
        if not nom:
            if ty not in PRIM:
                raise Unrecognised("struct %s.%s: type %s without nom attribute" % (struct_name, name, ty))
            fields.append((name, ("wire", PRIM[ty]), PRIM[ty]))
            continue
        if len(nom) != 1:
            raise Unrecognised("struct %s.%s: several nom attributes" % (struct_name, name))
        a = re.sub(r"\s+", " ", nom[0])
        mv = re.fullmatch(r'#\[nom\(Value = "(\d+)"\)\]', a)
        mp = re.fullmatch(r"#\[nom\(Value\(ProtocolTypes::from\(([a-z_0-9]+)\)\)\)\]", a)
        mi = re.fullmatch(r'#\[nom\(Map = "Ipv4Addr::from", Parse = "be_u32"\)\]', a)
        if mv and ty in PRIM:
            fields.append((name, ("const", int(mv.group(1))), PRIM[ty]))
        elif mp and ty == "ProtocolTypes":
            fields.append((name, ("protoOf", mp.group(1)), 1))
        elif mi and ty == "Ipv4Addr":
            fields.append((name, ("wire", 4), 4))
            IPV4_FIELDS.add(name)
        else:
            raise Unrecognised("struct %s.%s: nom attribute %s" % (struct_name, name, a))
    return fields


def parse_export_order(src, type_name):
    """symbolic evaluation of V5/V7::to_be_bytes -> (header order, record order) as lists of field names"""
    m = re.search(r"impl\s+%s\s*\{" % type_name, src)
    if not m:
        raise Unrecognised("impl %s" % type_name)
    impl, _ = block_after(src, m.start())
    m = re.search(r"pub\s+fn\s+to_be_bytes\s*\(\s*&self\s*\)\s*->\s*Vec<u8>\s*\{", impl)
    if not m:
        raise Unrecognised("%s::to_be_bytes signature" % type_name)
    body, _ = block_after(impl, m.start() + m.group(0).rindex("{") - 0)
    env = {}      # local -> list of (scope, field) in emission order; scope in {'header','set'}
    vecs = {}     # vec local -> list
    stmts = []

    def split_stmts(text):
        out, depth, cur = [], 0, ""
        i = 0
        while i < len(text):
            ch = text[i]
            if ch == "{":
                depth += 1
            if ch == "}":
                depth -= 1
                if depth == 0 and cur.lstrip().startswith("for "):
                    cur += ch
                    out.append(cur.strip())
                    cur = ""
                    i += 1
                    continue
            if ch == ";" and depth == 0:
                out.append(cur.strip())
                cur = ""
            else:
                cur += ch
            i += 1
        if cur.strip():
            out.append(cur.strip())
        return [s for s in out if s]

    def run(stmts_text, scope_name):
        for st in split_stmts(stmts_text):
            st1 = re.sub(r"\s+", " ", st)
            mm = re.fullmatch(r"let (?:mut )?([a-z_0-9]+) = (self\.header|set)\.([a-z_0-9]+)\.(?:to_be_bytes|octets)\(\)(?:\.to_vec\(\))?", st1)
            if mm:
                sc = "header" if mm.group(2) == "self.header" else "set"
                env[mm.group(1)] = [(sc, mm.group(3))]
                continue
            mm = re.fullmatch(r"let mut ([a-z_0-9]+) = vec!\[\]", st1)
            if mm:
                env[mm.group(1)] = []
                continue
            mm = re.fullmatch(r"([a-z_0-9]+)\.extend_from_slice\(&([a-z_0-9]+)\)", st1)
            if mm and mm.group(1) in env and mm.group(2) in env:
                env[mm.group(1)] = env[mm.group(1)] + env[mm.group(2)]
                continue
            mm = re.fullmatch(r"for set in &self\.flowsets \{(.*)\}", st1)
            if mm:
                # the loop body is evaluated once symbolically: per-record emission
                before = {k: list(v) for k, v in env.items()}
                run(mm.group(1), "set")
                # what each outer vec gained during one iteration is the per-record order
                for k in before:
                    gained = env[k][len(before[k]):]
                    if gained:
                        env[k] = before[k] + [("loop", tuple(gained))]
                continue
            if re.fullmatch(r"[a-z_0-9]+", st1):
                env["__ret__"] = env[st1]
                continue
            raise Unrecognised("%s::to_be_bytes: statement %r" % (type_name, st1))

    run(body, "header")
    if "__ret__" not in env:
        raise Unrecognised("%s::to_be_bytes: no tail expression" % type_name)
    ret = env["__ret__"]
    hdr, recs, seen_loop = [], None, False
    for item in ret:
        if item[0] == "header":
            if seen_loop:
                raise Unrecognised("%s::to_be_bytes: header field after records" % type_name)
            hdr.append(item[1])
        elif item[0] == "loop":
            if seen_loop:
                raise Unrecognised("%s::to_be_bytes: two record loops" % type_name)
            seen_loop = True
            for sc, f in item[1]:
                if sc != "set":
                    raise Unrecognised("%s::to_be_bytes: non-record field in loop" % type_name)
            recs = [f for _, f in item[1]]
        else:
            raise Unrecognised("%s::to_be_bytes: stray %r" % (type_name, item))
    if recs is None:
        raise Unrecognised("%s::to_be_bytes: no record loop" % type_name)
    return hdr, recs


def parse_hdr_export_prefix(src, type_name):
    """V9/IPFix::to_be_bytes: the leading `result.extend_from_slice(&self.header.f.to_be_bytes());` run"""
    m = re.search(r"impl\s+%s\s*\{" % type_name, src)
    if not m:
        raise Unrecognised("impl %s" % type_name)
    impl, _ = block_after(src, m.start())
    m = re.search(r"pub\s+fn\s+to_be_bytes\s*\(\s*&self\s*\)[^{]*\{", impl)
    if not m:
        raise Unrecognised("%s::to_be_bytes" % type_name)
    body, _ = block_after(impl, m.end() - 1)
    order = []
    stmts = [re.sub(r"\s+", " ", s.strip()) for s in body.split(";")]
    if not stmts or stmts[0] != "let mut result = vec![]":
        raise Unrecognised("%s::to_be_bytes: first statement %r" % (type_name, stmts[:1]))
    for s in stmts[1:]:
        mm = re.fullmatch(r"result\.extend_from_slice\(&self\.header\.([a-z_0-9]+)\.to_be_bytes\(\)\)", s)
        if not mm:
            break
        order.append(mm.group(1))
    if not order:
        raise Unrecognised("%s::to_be_bytes: no header emission" % type_name)
    return order


def parse_dn_arms(src):
    body = find_impl(src, r"impl\s+DataNumber\s*\{")
    m = re.search(r"pub\s+fn\s+parse\s*\(", body)
    if not m:
        raise Unrecognised("DataNumber::parse")
    fn, _ = block_after(body, m.start())
    m = re.search(r"match\s+\(field_length,\s*signed\)\s*\{", fn)
    if not m:
        raise Unrecognised("DataNumber::parse: match")
    arms_txt, _ = block_after(fn, m.start())
    arms = []
    # arms are `(N, bool) => expr,` — split on top-level commas
    depth, cur, parts = 0, "", []
    for ch in arms_txt:
        if ch in "([{":
            depth += 1
        if ch in ")]}":
            depth -= 1
        if ch == "," and depth == 0:
            parts.append(cur)
            cur = ""
        else:
            cur += ch
    if cur.strip():
        parts.append(cur)
    has_default = False
    for p in parts:
        p = re.sub(r"\s+", " ", p.strip())
        if not p:
            continue
        mm = re.fullmatch(r"\((\d+), (true|false)\) => (.+)", p)
        if not mm:
            if re.fullmatch(r"_ => Err\(NomErr::Error\(NomError::new\(i, ErrorKind::Fail\)\)\)", p):
                has_default = True
                continue
            raise Unrecognised("DataNumber::parse arm %r" % p)
        ln, signed, rhs = int(mm.group(1)), mm.group(2) == "true", mm.group(3)
        a = re.fullmatch(r"Ok\(([iu])(\d+)::parse\(i\)\?\)\.map\(\|\(i, j\)\| \(i, Self::([A-Z0-9a-z]+)\((j|j as i32)\)\)\)", rhs)
        b = re.fullmatch(r"Ok\(be_([iu])24\(i\)\.map\(\|\(i, j\)\| \(i, Self::([A-Z0-9a-z]+)\(j\)\)\)\?\)", rhs)
        if a:
            sgn, bits, var, expr = a.group(1) == "i", int(a.group(2)), a.group(3), a.group(4)
        elif b:
            sgn, bits, var, expr = b.group(1) == "i", 24, b.group(2), "j"
        else:
            raise Unrecognised("DataNumber::parse rhs %r" % rhs)
        if bits != 8 * ln or sgn != signed:
            raise Unrecognised("DataNumber::parse arm (%d,%s) reads a %s%d" % (ln, signed, "i" if sgn else "u", bits))
        var = var.lower()
        if var not in ("u8", "u16", "u24", "i24", "u32", "u64", "u128", "i32"):
            raise Unrecognised("DataNumber variant %s" % var)
        if expr == "j as i32" and var != "i32":
            raise Unrecognised("cast in arm %r" % p)
        if expr == "j":
            # the variant's payload type must be able to hold the parsed type without a cast
            natural = {"u8": (False, 8), "u16": (False, 16), "u24": (False, 24), "i24": (True, 24), "u32": (False, 32),
                       "u64": (False, 64), "u128": (False, 128), "i32": (True, 32)}[var]
            if natural != (sgn, bits):
                raise Unrecognised("arm %r stores %s%d in %s" % (p, "i" if sgn else "u", bits, var))
        arms.append(((ln, signed), var))
    if not has_default:
        raise Unrecognised("DataNumber::parse: no failing default arm")
    return arms


def parse_common_keys(src, impl_ty, enum_name, en):
    body = find_impl(src, r"impl\s+From<&%s>\s+for\s+NetflowCommon\s*\{" % impl_ty)
    body = re.sub(r"\s+", " ", body)
    def one(target, allow_alt):
        m = re.search(r"%s: value_map \.get\(&%s::([A-Za-z0-9_]+)\)( \.or_else\(\|\| value_map\.get\(&%s::([A-Za-z0-9_]+)\)\))? ?\.and_then\(" % (target, enum_name, enum_name), body)
        if not m:
            raise Unrecognised("common %s: %s" % (impl_ty, target))
        if bool(m.group(2)) != allow_alt:
            raise Unrecognised("common %s: %s alt shape" % (impl_ty, target))
        return (en[m.group(1)], en[m.group(3)]) if allow_alt else en[m.group(1)]
    s4, s6 = one("src_addr", True)
    d4, d6 = one("dst_addr", True)
    m = re.search(r"protocol_type: value_map ?\.get\(&%s::([A-Za-z0-9_]+)\) ?\.and_then\(" % enum_name, body)
    if not m:
        raise Unrecognised("common %s: protocol_type" % impl_ty)
    keys = {"src4": s4, "src6": s6, "dst4": d4, "dst6": d6, "sport": one("src_port", False), "dport": one("dst_port", False),
            "proto": one("protocol_number", False), "first": one("first_seen", False), "last": one("last_seen", False),
            "smac": one("src_mac", False), "dmac": one("dst_mac", False)}
    if en[m.group(1)] != keys["proto"]:
        raise Unrecognised("common %s: protocol_type from a different field" % impl_ty)
    m = re.search(r"version: value\.header\.version, timestamp: value\.header\.([a-z_]+), flowsets", body)
    if not m:
        raise Unrecognised("common %s: header projection" % impl_ty)
    keys["ts"] = m.group(1)
    return keys


def parse_const(src, name):
    m = re.search(r"const\s+%s\s*:\s*u16\s*=\s*(\d+)\s*;" % name, src)
    if not m:
        raise Unrecognised("const %s" % name)
    return int(m.group(1))


def _squash(t):
    t = re.sub(r"\s+", "", t)
    return t.replace(",)", ")")


def parse_payload_enum(src, name):
    """pub enum X { A(T), B(U), ... } -> {A: T}"""
    m = re.search(r"pub\s+enum\s+%s\s*\{" % re.escape(name), src)
    if not m:
        raise Unrecognised("enum %s not found" % name)
    body, _ = block_after(src, m.start())
    body = re.sub(r"#\[[^\]]*\]", "", body)
    out = {}
    for item in body.split(","):
        item = item.strip()
        if not item:
            continue
        mm = re.fullmatch(r"([A-Za-z0-9_]+)\(([A-Za-z0-9_<>]+)\)", item)
        if not mm:
            raise Unrecognised("enum %s: variant %r" % (name, item))
        out[mm.group(1)] = mm.group(2)
    return out


DUR_UNITS = {"secs": 1, "millis": 1000, "micros": 1000000, "nanos": 1000000000}
VTAGS = {"String": "str", "DataNumber": "num", "Float64": "f64", "Duration": "dur", "Ip4Addr": "ip4", "Ip6Addr": "ip6",
         "MacAddr": "mac", "Vec": "vec", "ProtocolType": "proto", "Unknown": "unknown"}
SCALAR_BYTES = {"u8": 1, "u16": 2, "u32": 4, "u64": 8, "u128": 16, "i32": 4, "f64": 8, "Ipv4Addr": 4, "Ipv6Addr": 16}


def parse_value_arms(src):
    """the arms of FieldValue::from_field_type as descriptors (lean/NetflowModel/Arms.lean: ValueArm)"""
    body = find_impl(src, r"impl\s+FieldValue\s*\{")
    m = re.search(r"pub\s+fn\s+from_field_type\s*\(", body)
    if not m:
        raise Unrecognised("FieldValue::from_field_type")
    fn, _ = block_after(body, m.start())
    sq = _squash(fn)
    if not sq.startswith("let(remaining,field_value)=matchfield_type{") or not sq.endswith("};Ok((remaining,field_value))"):
        raise Unrecognised("from_field_type: frame")
    arms = []
    for lhs, rhs in match_arms(fn, r"field_type"):
        mm = re.fullmatch(r"FieldDataType::([A-Za-z0-9]+)", lhs)
        if not mm or mm.group(1) not in FTYPES:
            raise Unrecognised("from_field_type pattern %r" % lhs)
        ty = FTYPES[mm.group(1)]
        r = _squash(rhs)
        a = re.fullmatch(r"\{let\(i,data_number\)=DataNumber::parse\(remaining,field_length,(true|false)\)\?;\(i,FieldValue::DataNumber\(data_number\)\)\}", r)
        if a:
            arms.append((ty, ".number %s" % a.group(1))); continue
        if r == "{let(i,taken)=take(field_length)(remaining)?;(i,FieldValue::String(String::from_utf8_lossy(taken).to_string()))}":
            arms.append((ty, ".text")); continue
        a = re.fullmatch(r"\{let\(i,taken\)=be_(u32|u128)\(remaining\)\?;letip_addr=Ipv(4|6)Addr::from\(taken\);\(i,FieldValue::Ip(4|6)Addr\(ip_addr\)\)\}", r)
        if a and a.group(2) == a.group(3) and {"4": "u32", "6": "u128"}[a.group(2)] == a.group(1):
            arms.append((ty, ".ipv%s %d" % (a.group(2), SCALAR_BYTES[a.group(1)]))); continue
        a = re.fullmatch(r"\{let\(i,taken\)=take\((\d+)_usize\)\(remaining\)\?;lettaken:&\[u8;(\d+)\]=taken\.try_into\(\)\.map_err\(\|_\|NomErr::Error\(NomError::new\(remaining,ErrorKind::Fail\)\)\)\?;"
                         r"letmac_addr=mac_address::MacAddress::from\(\*taken\)\.to_string\(\);\(i,FieldValue::MacAddr\(mac_addr\)\)\}", r)
        if a and a.group(1) == a.group(2):
            arms.append((ty, ".mac %s" % a.group(1))); continue
        a = re.fullmatch(r"\{let\(i,data_number\)=DataNumber::parse\(remaining,field_length,false\)\?;"
                         r"\(i,FieldValue::Duration\(Duration::from_(secs|millis|micros|nanos)\(<DataNumberasInto<usize>>::into\(data_number\)asu64\)\)\)\}", r)
        if a:
            arms.append((ty, ".duration %d" % DUR_UNITS[a.group(1)])); continue
        if r == "{let(i,protocol)=ProtocolTypes::parse(remaining)?;(i,FieldValue::ProtocolType(protocol))}":
            arms.append((ty, ".protocol")); continue
        if r == "{let(i,f)=f64::parse(remaining)?;(i,FieldValue::Float64(f))}":
            arms.append((ty, ".float 8")); continue
        if r == "{let(i,taken)=take(field_length)(remaining)?;(i,FieldValue::Vec(taken.to_vec()))}":
            arms.append((ty, ".bytes")); continue
        if r == "parse_unknown_fields(remaining,field_length)?":
            on = re.search(r'#\[cfg\(feature\s*=\s*"parse_unknown_fields"\)\]\s*fn\s+parse_unknown_fields\s*\(', src)
            off = re.search(r'#\[cfg\(not\(feature\s*=\s*"parse_unknown_fields"\)\)\]\s*fn\s+parse_unknown_fields\s*\(', src)
            if not on or not off:
                raise Unrecognised("parse_unknown_fields: cfg pair")
            b_on = _squash(block_after(src, on.end())[0])
            b_off = _squash(block_after(src, off.end())[0])
            if b_on != "let(i,taken)=take(field_length)(remaining)?;Ok((i,FieldValue::Vec(taken.to_vec())))":
                raise Unrecognised("parse_unknown_fields (feature on): %r" % b_on)
            if b_off != "Err(NomErr::Error(NomError::new(remaining,ErrorKind::Fail)))":
                raise Unrecognised("parse_unknown_fields (feature off): %r" % b_off)
            arms.append((ty, ".unknownGated")); continue
        raise Unrecognised("from_field_type arm %s: %r" % (lhs, r[:120]))
    if len(set(t for t, _ in arms)) != len(arms):
        raise Unrecognised("from_field_type: duplicate arm")
    return arms


def parse_export_arms(src):
    """the arms of FieldValue::to_be_bytes as descriptors (ExportArm)"""
    payload = parse_payload_enum(src, "FieldValue")
    body = find_impl(src, r"impl\s+FieldValue\s*\{")
    m = re.search(r"pub\s+fn\s+to_be_bytes\s*\(", body)
    if not m:
        raise Unrecognised("FieldValue::to_be_bytes")
    fn, _ = block_after(body, m.start())
    arms = []
    for lhs, rhs in match_arms(fn, r"self"):
        mm = re.fullmatch(r"FieldValue::([A-Za-z0-9]+)\(([a-z_]+)\)", lhs)
        if not mm or mm.group(1) not in VTAGS:
            raise Unrecognised("to_be_bytes pattern %r" % lhs)
        var, x, tag = mm.group(1), mm.group(2), VTAGS[mm.group(1)]
        r = _squash(rhs)
        if r in ("Ok(%s.as_bytes().to_vec())" % x, "Ok(%s.clone())" % x) and payload.get(var) in ("String", "Vec<u8>"):
            arms.append((tag, ".held")); continue
        if r == "%s.to_be_bytes()" % x and payload.get(var) == "DataNumber":
            arms.append((tag, ".number")); continue
        if r in ("Ok(%s.to_be_bytes().to_vec())" % x, "Ok(%s.octets().to_vec())" % x) and payload.get(var) in SCALAR_BYTES:
            arms.append((tag, ".be %d" % SCALAR_BYTES[payload[var]])); continue
        if r == "Ok((u32::try_from(%s.as_secs()).map_err(std::io::Error::other)?).to_be_bytes().to_vec())" % x and payload.get(var) == "Duration":
            arms.append((tag, ".secsU32")); continue
        if r == "Ok(u8::from(*%s).to_be_bytes().to_vec())" % x and payload.get(var) == "ProtocolTypes":
            arms.append((tag, ".protoU8")); continue
        raise Unrecognised("to_be_bytes arm %s: %r" % (lhs, r[:120]))
    if len(set(t for t, _ in arms)) != len(arms):
        raise Unrecognised("to_be_bytes: duplicate arm")
    return arms


def parse_dn_export_arms(src):
    """DataNumber::to_be_bytes arms (DnExportArm) and the From<DataNumber> for usize casts"""
    payload = parse_payload_enum(src, "DataNumber")
    body = find_impl(src, r"impl\s+DataNumber\s*\{")
    m = re.search(r"(?:pub\s+)?fn\s+to_be_bytes\s*\(", body)
    if not m:
        raise Unrecognised("DataNumber::to_be_bytes")
    fn, _ = block_after(body, m.start())
    arms = []
    for lhs, rhs in match_arms(fn, r"self"):
        mm = re.fullmatch(r"DataNumber::([A-Z0-9a-z]+)\(([a-z_]+)\)", lhs)
        if not mm or mm.group(1) not in payload:
            raise Unrecognised("DataNumber::to_be_bytes pattern %r" % lhs)
        var, x = mm.group(1), mm.group(2)
        r = _squash(rhs)
        if r == "Ok(%s.to_be_bytes().to_vec())" % x and payload[var] in SCALAR_BYTES:
            arms.append((var.lower(), ".native %d" % SCALAR_BYTES[payload[var]])); continue
        a = re.fullmatch(r"\{letmutwtr=Vec::new\(\);wtr\.write_([ui])24::<BigEndian>\(\*%s\)\?;Ok\(wtr\)\}" % x, r)
        if a and payload[var] == {"u": "u32", "i": "i32"}[a.group(1)]:
            arms.append((var.lower(), ".writeU24" if a.group(1) == "u" else ".writeI24")); continue
        raise Unrecognised("DataNumber::to_be_bytes arm %s: %r" % (lhs, r[:120]))
    ub = find_impl(src, r"impl\s+From<DataNumber>\s+for\s+usize\s*\{")
    casts = []
    for lhs, rhs in match_arms(ub, r"val"):
        mm = re.fullmatch(r"DataNumber::([A-Z0-9a-z]+)\(([a-z_]+)\)", lhs)
        if not mm or mm.group(1) not in payload or _squash(rhs) != "%sasusize" % mm.group(2):
            raise Unrecognised("From<DataNumber> for usize arm %r => %r" % (lhs, rhs))
        casts.append(mm.group(1).lower())
    if sorted(casts) != sorted(v.lower() for v in payload):
        raise Unrecognised("From<DataNumber> for usize: arms %r" % casts)
    return {"export": arms, "usizeCasts": sorted(casts)}


def parse_conversion_arms(src):
    """the conversions the common view goes through (data_number.rs): `impl_try_from!( u8 => U8, … )` (macro body checked
    verbatim), `TryFrom<&FieldValue> for String`, `TryFrom<&FieldValue> for IpAddr`"""
    m = re.search(r"macro_rules!\s*impl_try_from\s*\{", src)
    if not m:
        raise Unrecognised("impl_try_from! macro")
    body = _squash(block_after(src, m.start())[0])
    want = ("($($t:ty=>$v:ident),*;$($s:ty=>$sv:ident),*)=>{$(implTryFrom<&DataNumber>for$t{typeError=DataNumberError;fntry_from(val:&DataNumber)->Result<Self,Self::Error>"
            "{matchval{DataNumber::$v(i)=>Ok(*i),_=>Err(DataNumberError::InvalidDataType),}}}implTryFrom<&FieldValue>for$t{typeError=FieldValueError;"
            "fntry_from(value:&FieldValue)->Result<Self,Self::Error>{matchvalue{FieldValue::DataNumber(d)=>{letd:$t=d.try_into().map_err(|_|FieldValueError::InvalidDataType)?;Ok(d)}"
            "_=>Err(FieldValueError::InvalidDataType),}}})*};")
    if body != want:
        raise Unrecognised("impl_try_from! body changed")
    m = re.search(r"impl_try_from!\s*\(", src[m.end():])
    if not m:
        raise Unrecognised("impl_try_from! invocation")
    inv = re.search(r"impl_try_from!\s*\(([^;]*);\s*\)\s*;", src)
    if not inv:
        raise Unrecognised("impl_try_from! invocation shape")
    nums = []
    for item in inv.group(1).split(","):
        item = item.strip()
        if not item:
            continue
        mm = re.fullmatch(r"([iu]\d+)\s*=>\s*([IU]\d+)", item)
        if not mm:
            raise Unrecognised("impl_try_from! item %r" % item)
        nums.append((mm.group(1), mm.group(2).lower()))
    def arms_of(target):
        b = find_impl(src, r"impl\s+TryFrom<&FieldValue>\s+for\s+%s\s*\{" % target)
        return [(l, _squash(r)) for l, r in match_arms(b, r"value")]
    st = arms_of("String")
    if st != [("FieldValue::String(s)", "Ok(s.clone())"), ("FieldValue::MacAddr(s)", "Ok(s.to_string())"), ("_", "Err(FieldValueError::InvalidDataType)")]:
        raise Unrecognised("TryFrom<&FieldValue> for String: %r" % st)
    ip = arms_of("IpAddr")
    if ip != [("FieldValue::Ip4Addr(ip)", "Ok(IpAddr::V4(*ip))"), ("FieldValue::Ip6Addr(ip)", "Ok(IpAddr::V6(*ip))"), ("_", "Err(FieldValueError::InvalidDataType)")]:
        raise Unrecognised("TryFrom<&FieldValue> for IpAddr: %r" % ip)
    return {"nums": nums, "string": ["str", "mac"], "ip": ["ip4", "ip6"]}


def parse_common_flow_types(common):
    """pub struct NetflowCommonFlowSet { pub x: Option<T>, … } -> [(x, T)] : the target type selects the conversion"""
    m = re.search(r"pub\s+struct\s+NetflowCommonFlowSet\s*\{", common)
    if not m:
        raise Unrecognised("NetflowCommonFlowSet")
    body, _ = block_after(common, m.start())
    out = []
    for item in body.split(","):
        item = re.sub(r"#\[[^\]]*\]", "", item).strip()
        if not item:
            continue
        mm = re.fullmatch(r"pub\s+([a-z_0-9]+)\s*:\s*Option<([A-Za-z0-9]+)>", item)
        if not mm:
            raise Unrecognised("NetflowCommonFlowSet field %r" % item)
        out.append((mm.group(1), mm.group(2)))
    return out


def scan_globals():
    bad = []
    for root, _, files in os.walk(SRC):
        for fn in files:
            if fn.endswith(".rs"):
                txt = strip_comments(open(os.path.join(root, fn)).read())
                for pat in (r"\bstatic\s+mut\b", r"\bthread_local!", r"\bOnceLock\b", r"\blazy_static!", r"\bOnceCell\b",
                            r"\bstatic\s+[A-Z_]+\s*:\s*(?:Mutex|RwLock|Atomic)"):
                    if re.search(pat, txt):
                        bad.append((fn, pat))
    return bad


def harvest_literals():
    """every integer literal of the non-test library source (a dictionary of 'interesting' values for the generators:
    ids, lengths and counts are drawn from these and their neighbours, so that a constant introduced by an edit is
    exercised without anybody having to think of it)"""
    vals = set()
    for root, _, files in os.walk(SRC):
        for fn in files:
            if not fn.endswith(".rs") or fn == "tests.rs":
                continue
            txt = strip_comments(open(os.path.join(root, fn)).read())
            txt = re.sub(r"#\[cfg\(test\)\].*", "", txt, flags=re.S)          # drop trailing test modules
            if fn in ("protocol.rs", "v9_lookup.rs", "ipfix_lookup.rs"):
                continue                                                     # pure tables: thousands of literals, all covered by the table items
            for m in re.finditer(r"(?<![A-Za-z0-9_.])(0x[0-9a-fA-F_]+|\d[\d_]*)(?:_?(?:u8|u16|u32|u64|u128|usize|i32|i64))?(?![A-Za-z0-9_.])", txt):
                t = m.group(1).replace("_", "")
                try:
                    v = int(t, 16) if t.startswith("0x") else int(t)
                except ValueError:
                    continue
                if v < 2 ** 64:
                    vals.add(v)
    return sorted(vals)


def lean_list(items):
    return "[" + ", ".join(items) + "]"


def lean_str(s):
    return '"' + s + '"'


def gen():
    problems = {}
    out = {}

    def attempt(key, f):
        try:
            out[key] = f()
        except Unrecognised as e:
            problems[key] = str(e)
        except Exception as e:  # malformed source etc.
            problems[key] = "internal: %r" % (e,)

    proto = strip_comments(read("protocol.rs"))
    v9l = strip_comments(read("variable_versions/v9_lookup.rs"))
    ipl = strip_comments(read("variable_versions/ipfix_lookup.rs"))
    dn = strip_comments(read("variable_versions/data_number.rs"))
    v5 = strip_comments(read("static_versions/v5.rs"))
    v7 = strip_comments(read("static_versions/v7.rs"))
    v9 = strip_comments(read("variable_versions/v9.rs"))
    ipf = strip_comments(read("variable_versions/ipfix.rs"))
    lib = strip_comments(read("lib.rs"))
    # ---- control skeleton (translate_ctl.py): one item per recognised shape
    S = {"lib": lib, "v5": v5, "v7": v7, "v9": v9, "ipf": ipf}
    for key, f in translate_ctl.ITEMS:
        attempt(key, (lambda f=f: f(S)))
    # ---- the V9 / IPFIX exporters, statement by statement (translate_export.py)
    attempt("v9ExportProg", lambda: translate_export.translate(v9, "V9"))
    attempt("ipExportProg", lambda: translate_export.translate(ipf, "IPFix"))
    # ---- derive(Nom) template-record structs as field programs (translate_nom.py)
    attempt("nomStructs", lambda: translate_nom.translate(v9, ipf))
    # ---- JSON member schema of the derive(Serialize) types (translate_serde.py)
    attempt("serdeSchema", lambda: translate_serde.translate({"lib": lib, "v9": v9, "ipf": ipf, "dn": dn}))

    # ---- protocol tables
    def f_proto():
        en = dict(parse_enum(proto, "ProtocolTypes"))
        if any(d > 255 for d in en.values()):
            raise Unrecognised("ProtocolTypes discriminant > 255")
        ft, fd = from_num_table(proto, "u8", "ProtocolTypes")
        body = find_impl(proto, r"impl\s+From<ProtocolTypes>\s+for\s+u8\s*\{")
        to = {}
        for lhs, rhs in match_arms(body, r"item"):
            mm = re.fullmatch(r"ProtocolTypes::([A-Za-z0-9_]+)", lhs)
            if not mm or not re.fullmatch(r"\d+", rhs):
                raise Unrecognised("From<ProtocolTypes> for u8 arm %r => %r" % (lhs, rhs))
            to.setdefault(en[mm.group(1)], int(rhs))
        if set(to) != set(en.values()):
            raise Unrecognised("From<ProtocolTypes> for u8 not exhaustive")
        return {
            "discs": sorted(en.values()),
            "names": sorted(((d, n) for n, d in en.items())),
            "fromU8": sorted((n, en[v]) for n, v in ft.items()),
            "fromU8Default": en[fd],
            "toU8": sorted(to.items()),
        }
    attempt("proto", f_proto)

    def f_scope():
        en = dict(parse_enum(v9l, "ScopeFieldType"))
        ft, fd = from_num_table(v9l, "u16", "ScopeFieldType")
        # which variants ScopeDataField::parse accepts
        m = re.search(r"impl\s+ScopeDataField\s*\{", v9)
        body, _ = block_after(v9, m.start())
        arms = match_arms(body, r"template_field\.field_type")
        known = []
        for lhs, rhs in arms:
            mm = re.fullmatch(r"ScopeFieldType::([A-Za-z0-9_]+)", lhs)
            if mm and rhs.startswith("Ok(") or (mm and rhs.startswith("{")):
                known.append(en[mm.group(1)])
            elif lhs == "_" and rhs.startswith("Err("):
                pass
            elif mm:
                known.append(en[mm.group(1)])
            else:
                raise Unrecognised("ScopeDataField::parse arm %r" % lhs)
        return {"table": sorted((n, en[v]) for n, v in ft.items()), "default": en[fd], "known": sorted(known), "enum": en}
    attempt("scope", f_scope)

    def f_fields(src, enum_name):
        def g():
            en = dict(parse_enum(src, enum_name))
            ft, fd = from_num_table(src, "u16", enum_name)
            ty, tyd = ftype_table(src, enum_name)
            return {
                "discs": sorted(en.items(), key=lambda x: x[1]),
                "from": sorted((n, en[v]) for n, v in ft.items()),
                "fromDefault": en[fd],
                "ty": sorted(ty.items()),
                "tyDefault": tyd,
                "enum": en,
            }
        return g
    attempt("v9field", f_fields(v9l, "V9Field"))
    attempt("ipfield", f_fields(ipl, "IPFixField"))
    attempt("dnArms", lambda: parse_dn_arms(dn))
    attempt("valueArms", lambda: parse_value_arms(dn))
    attempt("exportArms", lambda: parse_export_arms(dn))
    attempt("dnExport", lambda: parse_dn_export_arms(dn))
    attempt("convArms", lambda: parse_conversion_arms(dn))

    for key, src, name, nth in [
        ("v5Hdr", v5, "Header", 0), ("v5Rec", v5, "FlowSet", 0), ("v7Hdr", v7, "Header", 0), ("v7Rec", v7, "FlowSet", 0),
        ("v9Hdr", v9, "Header", 0), ("v9SetHdr", v9, "FlowSetHeader", 0), ("ipHdr", ipf, "Header", 0),
        ("ipSetHdr", ipf, "FlowSetHeader", 0),
    ]:
        attempt(key, (lambda s, n, k: (lambda: parse_layout(s, n, k)))(src, name, nth))

    attempt("v5Order", lambda: parse_export_order(v5, "V5"))
    attempt("v7Order", lambda: parse_export_order(v7, "V7"))
    attempt("v9HdrOrder", lambda: parse_hdr_export_prefix(v9, "V9"))
    attempt("ipHdrOrder", lambda: parse_hdr_export_prefix(ipf, "IPFix"))
    attempt("v9TemplateId", lambda: parse_const(v9, "TEMPLATE_ID"))
    attempt("v9OptTemplateId", lambda: parse_const(v9, "OPTIONS_TEMPLATE_ID"))
    attempt("ipOptTemplateId", lambda: parse_const(ipf, "OPTIONS_TEMPLATE_ID"))
    attempt("ipSetMinRange", lambda: parse_const(ipf, "SET_MIN_RANGE"))

    def f_default_allowed():
        m = re.search(r"allowed_versions\s*:\s*\[([0-9,\s]+)\]\s*\.iter\(\)", lib)
        if not m:
            raise Unrecognised("default allowed_versions")
        return [int(x) for x in m.group(1).split(",") if x.strip()]
    attempt("defaultAllowed", f_default_allowed)

    def f_dispatch():
        m = re.search(r"fn\s+parse_packet_by_version", lib)
        body, _ = block_after(lib, m.start())
        arms = match_arms(body, r"version")
        d = []
        for lhs, rhs in arms:
            if lhs == "_":
                if "UnknownVersion" not in rhs:
                    raise Unrecognised("dispatch default %r" % rhs)
                continue
            mm = re.fullmatch(r"(V5Parser::parse|V7Parser::parse|self\.v9_parser\.parse|self\.ipfix_parser\.parse)\(packet\)", rhs)
            if not re.fullmatch(r"\d+", lhs) or not mm:
                raise Unrecognised("dispatch arm %r => %r" % (lhs, rhs))
            d.append((int(lhs), {"V5Parser::parse": 5, "V7Parser::parse": 7, "self.v9_parser.parse": 9, "self.ipfix_parser.parse": 10}[mm.group(1)]))
        return d
    attempt("dispatch", f_dispatch)
    attempt("globals", lambda: scan_globals())
    common = strip_comments(read("netflow_common.rs"))
    attempt("commonFlowTypes", lambda: parse_common_flow_types(common))
    attempt("commonV9", lambda: parse_common_keys(common, "V9", "V9Field", out["v9field"]["enum"]))
    attempt("commonIp", lambda: parse_common_keys(common, "IPFix", "IPFixField", out["ipfield"]["enum"]))
    return out, problems


def layout_lean(fields):
    names = [f[0] for f in fields]
    items = []
    for n, k, tw in fields:
        if k[0] == "wire":
            ks = ".wire %d" % k[1]
        elif k[0] == "const":
            ks = ".const %d" % k[1]
        else:
            if k[1] not in names:
                raise Unrecognised("protoOf source %s" % k[1])
            ks = ".protoOf %d" % names.index(k[1])
        items.append("{ name := %s, kind := %s, tw := %d }" % (lean_str(n), ks, tw))
    return "[\n    " + ",\n    ".join(items) + " ]"


def pairs(lst):
    return lean_list("(%d, %d)" % (a, b) for a, b in lst)


def emit(out):
    L = []
    A = L.append
    A("/- GENERATED by tools/translate.py from the Rust source of /repo — do not edit. -/")
    A("import NetflowModel.Types")
    A("import NetflowModel.Arms")
    A("namespace Netflow.Generated")
    A("open Netflow")
    A("")
    p = out["proto"]
    A("/-- declared discriminants of `ProtocolTypes` -/")
    A("def protoDiscs : List Nat := %s" % lean_list(str(d) for d in p["discs"]))
    A("/-- variant names by discriminant (documentation / spec comparison) -/")
    A("def protoNames : List (Nat × String) := %s" % lean_list('(%d, "%s")' % (d, n) for d, n in p["names"]))
    A("/-- `From<u8> for ProtocolTypes` : explicit arms (number, discriminant of the result) -/")
    A("def protoFromU8Tbl : List (Nat × Nat) := %s" % pairs(p["fromU8"]))
    A("def protoFromU8Default : Nat := %d" % p["fromU8Default"])
    A("/-- `From<ProtocolTypes> for u8` by discriminant -/")
    A("def protoToU8Tbl : List (Nat × Nat) := %s" % pairs(p["toU8"]))
    s = out["scope"]
    A("def scopeTbl : List (Nat × Nat) := %s" % pairs(s["table"]))
    A("def scopeDefault : Nat := %d" % s["default"])
    A("def scopeKnownDiscs : List Nat := %s" % lean_list(str(d) for d in s["known"]))
    for key, nm in (("v9field", "v9"), ("ipfield", "ip")):
        f = out[key]
        A("/-- `From<u16>` arms: (number, discriminant) -/")
        A("def %sFieldTbl : List (Nat × Nat) := %s" % (nm, pairs(f["from"])))
        A("def %sFieldDefault : Nat := %d" % (nm, f["fromDefault"]))
        A("/-- `From<_> for FieldDataType` arms by discriminant -/")
        A("def %sTyTbl : List (Nat × FType) := %s" % (nm, lean_list("(%d, .%s)" % (a, b) for a, b in f["ty"])))
        A("def %sTyDefault : FType := .%s" % (nm, f["tyDefault"]))
        A("def %sFieldNames : List (Nat × String) := %s" % (nm, lean_list('(%d, "%s")' % (d, n) for n, d in f["discs"])))
    A("def ipEnterprise : Nat := %d" % out["ipfield"]["enum"]["Enterprise"])
    A("def dnArms : DnArms := %s" % lean_list("((%d, %s), .%s)" % (l, "true" if sg else "false", v) for (l, sg), v in out["dnArms"]))
    for key in ("v5Hdr", "v5Rec", "v7Hdr", "v7Rec", "v9Hdr", "v9SetHdr", "ipHdr", "ipSetHdr"):
        A("def %s : Layout := %s" % (key, layout_lean(out[key])))
    A("def v5HdrOrder : List String := %s" % lean_list(lean_str(x) for x in out["v5Order"][0]))
    A("def v5RecOrder : List String := %s" % lean_list(lean_str(x) for x in out["v5Order"][1]))
    A("def v7HdrOrder : List String := %s" % lean_list(lean_str(x) for x in out["v7Order"][0]))
    A("def v7RecOrder : List String := %s" % lean_list(lean_str(x) for x in out["v7Order"][1]))
    A("def v9HdrOrder : List String := %s" % lean_list(lean_str(x) for x in out["v9HdrOrder"]))
    A("def ipHdrOrder : List String := %s" % lean_list(lean_str(x) for x in out["ipHdrOrder"]))
    A("def defaultAllowed : List Nat := %s" % lean_list(str(x) for x in out["defaultAllowed"]))
    A("/-- `match version` arms of `parse_packet_by_version`: (literal, parser it dispatches to) -/")
    A("def dispatch : List (Nat × Nat) := %s" % pairs(out["dispatch"]))
    A("/-- no `static mut` / `thread_local!` / `OnceLock` / `lazy_static!` under src/ -/")
    for key in ("commonV9", "commonIp"):
        k = out[key]
        A("def %s : CommonKeys := { %s, ts := %s }" % (key, ", ".join("%s := %d" % (n, k[n]) for n in ("src4", "src6", "dst4", "dst6", "sport", "dport", "proto", "first", "last", "smac", "dmac")), lean_str(k["ts"])))
    A("/-- struct fields of type `Ipv4Addr` (serialised as dotted strings) -/")
    A("def ipv4Fields : List String := %s" % lean_list(lean_str(x) for x in sorted(IPV4_FIELDS)))
    A("def scopeNames : List (Nat × String) := %s" % lean_list('(%d, "%s")' % (d, n) for n, d in sorted(out["scope"]["enum"].items(), key=lambda x: x[1])))
    A("def noGlobals : Bool := %s" % ("true" if not out["globals"] else "false"))
    A("")
    A("/-- arms of `FieldValue::from_field_type`, one per `FieldDataType` (data_number.rs) -/")
    A("def valueArms : ValueArms := %s" % lean_list("(.%s, %s)" % (t, a) for t, a in out["valueArms"]))
    A("/-- arms of `FieldValue::to_be_bytes` -/")
    A("def exportArms : ExportArms := %s" % lean_list("(.%s, %s)" % (t, a) for t, a in out["exportArms"]))
    A("/-- arms of `DataNumber::to_be_bytes` -/")
    A("def dnExportArms : DnExportArms := %s" % lean_list("(.%s, %s)" % (t, a) for t, a in out["dnExport"]["export"]))
    A("/-- variants whose `From<DataNumber> for usize` arm is the plain cast `i as usize` (all of them) -/")
    A("def dnUsizeCasts : List DnArm := %s" % lean_list(".%s" % v for v in out["dnExport"]["usizeCasts"]))
    A("/-- `impl_try_from!(…)`: the integer type a common-view conversion asks for -> the only `DataNumber` variant it accepts -/")
    A("def convNumArms : List (String × DnArm) := %s" % lean_list('("%s", .%s)' % (t, v) for t, v in out["convArms"]["nums"]))
    A("/-- value kinds accepted by `TryFrom<&FieldValue> for String` / `for IpAddr` -/")
    A("def convStringTags : List VTag := %s" % lean_list(".%s" % v for v in out["convArms"]["string"]))
    A("def convIpTags : List VTag := %s" % lean_list(".%s" % v for v in out["convArms"]["ip"]))
    A("/-- fields of `NetflowCommonFlowSet` with the type inside their `Option` (it selects the `TryFrom` impl) -/")
    A("def commonFlowTypes : List (String × String) := %s" % lean_list('("%s", "%s")' % (a, b) for a, b in out["commonFlowTypes"]))
    A("")
    A("def lookupD {β : Type} (tbl : List (Nat × β)) (d : β) (n : Nat) : β := (tbl.lookup n).getD d")
    A("")
    A("def tables : Tables where")
    A("  protoFromU8 := lookupD protoFromU8Tbl protoFromU8Default")
    A("  protoToU8 := lookupD protoToU8Tbl 0")
    A("  protoParse := fun n => if protoDiscs.contains n then some n else none")
    A("  v9Field := lookupD v9FieldTbl v9FieldDefault")
    A("  v9Ty := lookupD v9TyTbl v9TyDefault")
    A("  scopeKnown := fun n => scopeKnownDiscs.contains (lookupD scopeTbl scopeDefault n)")
    A("  scopeField := lookupD scopeTbl scopeDefault")
    A("  ipField := lookupD ipFieldTbl ipFieldDefault")
    A("  ipTy := lookupD ipTyTbl ipTyDefault")
    A("  ipEnterprise := ipEnterprise")
    A("  dnArms := dnArms")
    for key in ("v5Hdr", "v5Rec", "v7Hdr", "v7Rec", "v9Hdr", "v9SetHdr", "ipHdr", "ipSetHdr",
                "v5HdrOrder", "v5RecOrder", "v7HdrOrder", "v7RecOrder", "v9HdrOrder", "ipHdrOrder"):
        A("  %s := %s" % (key, key))
    A("  v9TemplateId := %d" % out["v9TemplateId"])
    A("  v9OptTemplateId := %d" % out["v9OptTemplateId"])
    A("  ipOptTemplateId := %d" % out["ipOptTemplateId"])
    A("  ipSetMinRange := %d" % out["ipSetMinRange"])
    A("  dispatch := dispatch")
    A("  commonV9 := commonV9")
    A("  commonIp := commonIp")
    A("")
    A("end Netflow.Generated")
    return "\n".join(L) + "\n"


def main():
    dest = sys.argv[1] if len(sys.argv) > 1 else os.path.join(os.path.dirname(__file__), "..", "lean", "NetflowModel", "Generated.lean")
    snap = os.path.join(os.path.dirname(os.path.abspath(__file__)), "generated_snapshot.json")
    out, problems = gen()
    summary = {"problems": problems, "fallback": []}
    if problems:
        # per-item fallback to the committed snapshot (DESIGN §1.2)
        try:
            old = json.load(open(snap))
        except Exception:
            old = {}
        for k in problems:
            if k in old:
                out[k] = old[k]
                summary["fallback"].append(k)
            else:
                print("translate.py: cannot recover item %s: %s" % (k, problems[k]), file=sys.stderr)
                print(json.dumps(summary))
                sys.exit(2)
    # JSON round trip normalises tuples -> lists; re-tuple what emit() needs
    norm = json.loads(json.dumps(out))
    norm["dnArms"] = [((a[0][0], a[0][1]), a[1]) for a in norm["dnArms"]]
    text = emit(norm)
    old_text = open(dest).read() if os.path.exists(dest) else None
    if old_text != text:
        with open(dest, "w") as f:
            f.write(text)
    dest_ctl = os.path.join(os.path.dirname(os.path.abspath(dest)), "GeneratedCtl.lean")
    text_ctl = translate_ctl.emit_lean(norm)
    old_ctl = open(dest_ctl).read() if os.path.exists(dest_ctl) else None
    if old_ctl != text_ctl:
        with open(dest_ctl, "w") as f:
            f.write(text_ctl)
    dest_exp = os.path.join(os.path.dirname(os.path.abspath(dest)), "GeneratedExport.lean")
    text_exp = translate_export.emit_lean(norm["v9ExportProg"], norm["ipExportProg"])
    old_exp = open(dest_exp).read() if os.path.exists(dest_exp) else None
    if old_exp != text_exp:
        with open(dest_exp, "w") as f:
            f.write(text_exp)
    dest_ser = os.path.join(os.path.dirname(os.path.abspath(dest)), "GeneratedSerde.lean")
    text_ser = translate_serde.emit_lean(norm["serdeSchema"])
    old_ser = open(dest_ser).read() if os.path.exists(dest_ser) else None
    if old_ser != text_ser:
        with open(dest_ser, "w") as f:
            f.write(text_ser)
    dest_nom = os.path.join(os.path.dirname(os.path.abspath(dest)), "GeneratedNom.lean")
    text_nom = translate_nom.emit_lean(norm["nomStructs"])
    old_nom = open(dest_nom).read() if os.path.exists(dest_nom) else None
    if old_nom != text_nom:
        with open(dest_nom, "w") as f:
            f.write(text_nom)
    if os.environ.get("NF_WRITE_SNAPSHOT") == "1" and not problems:
        json.dump(norm, open(snap, "w"), indent=0, sort_keys=True)
    try:
        lits = harvest_literals()
        json.dump(lits, open(os.path.join(os.path.dirname(os.path.abspath(__file__)), "..", "work", "literals.json"), "w"))
        summary["literals"] = len(lits)
    except Exception as e:
        summary["literals_error"] = repr(e)
    summary["changed"] = (old_text != text) or (old_ctl != text_ctl) or (old_exp != text_exp)
    summary["items"] = sorted(out.keys())
    print(json.dumps(summary))
    for k, v in problems.items():
        print("translate.py: unrecognised %s: %s (snapshot used)" % (k, v), file=sys.stderr)


if __name__ == "__main__":
    main()
