#!/bin/bash
# partest.sh <name> <patch.diff> [checks...] — run quick checks against a PATCHED COPY of the repository in a private copy of /verif
# (maintenance tool for seeded changes and harmless refactorings; never part of a registered command).  /repo is not touched.
set -u
name=$1; patch=$2; shift 2
checks="${@:-C01 C02 C03 C04 C05 C06 C07 C08 C09 C10 C11 C12 C13 C14 C15 C16 C17}"
root=/tmp/pv/$name
rm -rf $root; mkdir -p $root
git -C /repo worktree add -q --detach $root/repo HEAD || exit 2
[ "$patch" = "none" ] || (cd $root/repo && git apply "$patch") || { echo "PARTEST $name: patch does not apply"; git -C /repo worktree remove --force $root/repo; exit 2; }
rsync -a --exclude work --exclude .git --exclude 'harness/target-dev' /verif/ $root/verif/
sed -i "s#path = \"/repo\"#path = \"$root/repo\"#" $root/verif/harness/Cargo.toml
res=""
for c in $checks; do
  out=$(cd $root/verif && NF_REPO=$root/repo python3 check.py $c --tier quick 2>&1)
  o=$(echo "$out" | grep -E "^VIOLATION" | head -1)
  if [ -n "$o" ]; then
    res="$res $c:ALARM"; echo "  $c -> $o"
    rp=$(echo "$o" | sed -E 's/.*replay=([^ ]+).*/\1/'); mkdir -p /tmp/pv_replays; cp "$rp" /tmp/pv_replays/${name}_$c.json 2>/dev/null
  else
    rc=$(echo "$out" | grep -c "Traceback")
    if [ "$rc" != "0" ]; then res="$res $c:CRASH"; echo "$out" | tail -5; else res="$res $c:quiet"; fi
  fi
  fb=$(python3 -c "import json;e=json.load(open('$root/verif/evidence/$c.json'));print(','.join((e['coverage'].get('translator') or {}).get('fallback',[])))" 2>/dev/null)
  [ -n "$fb" ] && echo "  $c translator fallback: $fb"
done
git -C /repo worktree remove --force $root/repo
rm -rf $root
echo "PARTEST $name:$res"
