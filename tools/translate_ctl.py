#!/usr/bin/env python3
"""translate_ctl.py — the CONTROL SKELETON of the hand-modelled parsers, read from the Rust source.

Each item below recognises ONE shape of the control code of src/lib.rs, v9.rs, ipfix.rs, v5.rs, v7.rs (comments stripped,
all white space removed, so formatting never matters) and extracts the constants, comparison operators, arm orders and
flags the Lean model hard-codes for it.  An item whose shape is not recognised raises Unrecognised for THAT item only;
translate.py then falls back to the committed snapshot of the item (DESIGN §1.2) and the correspondence run remains the
tie.  The values become `Generated.ctl : Ctl` (lean/NetflowModel/GeneratedCtl.lean); Lemmas/G2Ctl.lean proves that the
`…K` control functions instantiated with it ARE the hand-written model.
"""
import re


class Unrecognised(Exception):
    pass


def squash(s):
    s = re.sub(r"\s+", "", s)
    s = s.replace(",)", ")").replace(",}", "}").replace(",]", "]")
    return s


CMP = {"<": "lt", "<=": "le", "==": "eq", "!=": "ne", ">": "gt", ">=": "ge"}
CMPRE = r"(<=|>=|==|!=|<|>)"


def need(m, what):
    if not m:
        raise Unrecognised(what)
    return m


def fn_body(src, header_re, what):
    """squashed text of the {...} block that follows the first match of header_re"""
    ms = list(re.finditer(header_re, src))
    if len(ms) != 1:
        raise Unrecognised(what + ": header found %d times" % len(ms))
    m = ms[0]
    i = src.index("{", m.end() - 1)
    depth = 0
    for j in range(i, len(src)):
        if src[j] == "{":
            depth += 1
        elif src[j] == "}":
            depth -= 1
            if depth == 0:
                return squash(src[i + 1:j])
    raise Unrecognised(what + ": unbalanced braces")


def split_arms(body):
    """top-level arms `pat => rhs` of a squashed match body"""
    arms, depth, cur = [], 0, ""
    i = 0
    while i < len(body):
        ch = body[i]
        if ch in "([{":
            depth += 1
        elif ch in ")]}":
            depth -= 1
        if ch == "," and depth == 0:
            arms.append(cur)
            cur = ""
        else:
            cur += ch
            if ch == "}" and depth == 0 and "=>{" in cur:
                arms.append(cur)
                cur = ""
        i += 1
    if cur:
        arms.append(cur)
    out = []
    for a in arms:
        if not a:
            continue
        k = a.find("=>")
        if k < 0:
            raise Unrecognised("match arm %r" % a[:60])
        out.append((a[:k], a[k + 2:]))
    return out


def match_block(body, scrut, what):
    k = body.find("match" + scrut + "{")
    if k < 0:
        raise Unrecognised(what + ": match %s not found" % scrut)
    i = k + len("match" + scrut)
    depth = 0
    for j in range(i, len(body)):
        if body[j] == "{":
            depth += 1
        elif body[j] == "}":
            depth -= 1
            if depth == 0:
                return body[i + 1:j]
    raise Unrecognised(what + ": unbalanced match")


# ------------------------------------------------------------------------------------------------ lib.rs

def lib_gate(lib):
    b = fn_body(lib, r"fn\s+parse_packet_by_version\b[^{]*\{", "parse_packet_by_version")
    hdr = "let(packet,version)=GenericNetflowHeader::parse(packet).map(|(remaining,header)|(remaining,header.version)).map_err(|e|NetflowParseError::Incomplete(e.to_string()))?;"
    gate = "if!self.allowed_versions.contains(&version){returnErr(NetflowParseError::UnallowedVersion(version));}"
    a, g, d = b.find(hdr), b.find(gate), b.find("matchversion{")
    if a != 0 or g < 0 or d < 0:
        raise Unrecognised("parse_packet_by_version: header / gate / dispatch statements not in the recognised form")
    if not b.endswith("_=>Err(NetflowParseError::UnknownVersion(packet.to_vec()))}"):
        raise Unrecognised("parse_packet_by_version: default arm")
    rest = b[len(hdr):].replace(gate, "", 1)
    if not rest.startswith("matchversion{"):
        raise Unrecognised("parse_packet_by_version: extra statements")
    return {"gateFirst": g < d}


def lib_loop(lib):
    b = fn_body(lib, r"pub\s+fn\s+parse_bytes\s*\(", "parse_bytes")
    want = ("letmutresults=vec![];letmutremaining=packet.to_vec();while!remaining.is_empty(){matchself.parse_packet_by_version(&remaining){"
            "Ok(parsed_netflow)=>{results.push(parsed_netflow.result);remaining=parsed_netflow.remaining;}"
            "Err(NetflowParseError::UnallowedVersion(_))=>break,"
            "Err(e)=>{results.push(NetflowPacket::Error(NetflowPacketError{error:e,remaining}));break;}}}results")
    if b != want:
        raise Unrecognised("parse_bytes: loop body not in the recognised form")
    return {"pbLoop": True}


WRAP = {"V5Parser": ("V5::parse(packet)", "V5(v5)", "v5"), "V7Parser": ("V7::parse(packet)", "V7(v7)", "v7"),
        "V9Parser": ("V9::parse(packet,self)", "V9(v9)", "v9"), "IPFixParser": ("IPFix::parse(packet,self)", "IPFix(ipfix)", "ipfix")}


def wrapper_version(src, ty, what):
    b = fn_body(src, r"impl\s+%s\s*\{" % ty, what)
    call, ctor, var = WRAP[ty]
    selfarg = "&mutself" if "self" in call else ""
    sig = "pubfnparse(%spacket:&[u8])->Result<ParsedNetflow,NetflowParseError>{" % (selfarg + "," if selfarg else "")
    okmap = "%s.map(|(remaining,%s)|ParsedNetflow::new(remaining,NetflowPacket::%s))" % (call, var, ctor)
    okmap2 = "%s.map(|(remaining,%s)|{ParsedNetflow::new(remaining,NetflowPacket::%s)})" % (call, var, ctor)
    if not (b.startswith(sig + okmap + ".map_err(") or b.startswith(sig + okmap2 + ".map_err(")) or not b.endswith(")}"):
        raise Unrecognised(what + ": wrapper body not in the recognised form")
    m = need(re.search(r"\.map_err\(\|e\|\{?NetflowParseError::Partial\(PartialParse\{version:(\d+),(?:error:e\.to_string\(\),remaining:packet\.to_vec\(\)|remaining:packet\.to_vec\(\),error:e\.to_string\(\))\}\)\}?\)", b), what + ": map_err shape")
    return int(m.group(1))


# ------------------------------------------------------------------------------------------------ v9.rs

def v9_set_sub(v9):
    s = squash(v9)
    m = need(re.search(r'pubstructFlowSet\{pubheader:FlowSetHeader,#\[nom\(PreExec="letlength=header\.length\.saturating_sub\((\d+)\);",Parse="map_res\(take\(length\),\|i\|FlowSetBody::parse\(i,parser,header\.flowset_id\)\.map\(\|\(_,flow_set\)\|flow_set\)\)"\)\]pubbody:FlowSetBody\}', s), "v9 FlowSet attribute")
    return int(m.group(1))


V9_TMPL_RHS = ("{let(i,templates)=Templates::parse(i)?;fortemplateintemplates.templates.iter(){parser.options_templates.remove(&template.template_id);}"
               "parser.templates.extend(templates.templates.iter().map(|template|(template.template_id,template.clone())));Ok((i,FlowSetBody::Template(templates)))}")
V9_OPT_RHS = ("{let(i,options_templates)=OptionsTemplates::parse(i)?;fortemplateinoptions_templates.templates.iter(){parser.templates.remove(&template.template_id);}"
              "parser.options_templates.extend(options_templates.templates.iter().map(|template|(template.template_id,template.clone())));Ok((i,FlowSetBody::OptionsTemplate(options_templates)))}")
V9_OPTDATA_RHS = "{let(i,options_data)=OptionsData::parse(i,parser,id)?;Ok((i,FlowSetBody::OptionsData(options_data)))}"
V9_DATA_RHS = "{let(i,data)=Data::parse(i,parser,id)?;Ok((i,FlowSetBody::Data(data)))}"
ERR_RHS = "Err(nom::Err::Error(nom::error::Error::new(i,nom::error::ErrorKind::Verify)))"


V9_BODY_SIG = "fnparse<'a>(i:&'a[u8],parser:&mutV9Parser,id:u16)->IResult<&'a[u8],FlowSetBody>{matchid{"
IP_BODY_SIG = "fnparse<'a>(i:&'a[u8],parser:&mutIPFixParser,id:u16)->IResult<&'a[u8],FlowSetBody>{matchid{"


def _framed(b, sig, what):
    """the impl holds exactly `fn parse(..) { match id { ARMS } }`: no statement before or after the match, no local item"""
    if not (b.startswith(sig) and b.endswith("}}")):
        raise Unrecognised(what + ": the function is not exactly one `match id`")
    return b[len(sig):-2]


def v9_arms(v9):
    b = fn_body(v9, r"impl\s+FlowSetBody\s*\{", "v9 FlowSetBody::parse")
    arms = split_arms(_framed(b, V9_BODY_SIG, "v9 FlowSetBody::parse"))
    table = {"_ifid==TEMPLATE_ID": ("tmpl", V9_TMPL_RHS), "_ifid==OPTIONS_TEMPLATE_ID": ("optTmpl", V9_OPT_RHS),
             "_ifparser.options_templates.contains_key(&id)": ("optData", V9_OPTDATA_RHS),
             "_ifparser.templates.contains_key(&id)": ("data", V9_DATA_RHS)}
    out = []
    for pat, rhs in arms[:-1]:
        if pat not in table:
            raise Unrecognised("v9 FlowSetBody::parse: guard %r" % pat[:60])
        name, want = table[pat]
        if rhs != want:
            raise Unrecognised("v9 FlowSetBody::parse: body of arm %s" % name)
        out.append(name)
    if not arms or arms[-1] != ("_", ERR_RHS):
        raise Unrecognised("v9 FlowSetBody::parse: default arm")
    if len(set(out)) != len(out):
        raise Unrecognised("v9 FlowSetBody::parse: duplicated arm")
    return out


def v9_opt_div(v9):
    s = squash(v9)
    m = need(re.search(r'#\[nom\(Count="\(options_scope_length/(\d+)\)asusize"\)\]pubscope_fields:Vec<OptionsTemplateScopeField>,#\[nom\(Count="\(options_length/(\d+)\)asusize"\)\]puboption_fields:Vec<TemplateField>', s), "v9 OptionsTemplate counts")
    return int(m.group(1)), int(m.group(2))


def v9_fold(v9):
    b = fn_body(v9, r"fn\s+parse_flowsets\b[^{]*\{", "parse_flowsets")
    skip = "ifremaining.is_empty(){returnOk((remaining,flowsets));}"
    want = ("let(remaining,flowsets)=(0..record_count).try_fold((i,Vec::new()),|(remaining,mutflowsets),_|{%s"
            "let(i,flowset)=FlowSet::parse(remaining,parser)?;flowsets.push(flowset);Ok((i,flowsets))})?;Ok((remaining,flowsets))")
    if b == want % skip:
        return True
    if b == want % "":
        return False
    raise Unrecognised("parse_flowsets: fold not in the recognised form")


def v9_data(v9):
    """(v9ZeroIsErr, v9StopOnErr): the zero-size guard and what the record loop does with a record that does not decode"""
    stop_loop = ("letmutremaining=input;letmutfields=Vec::new();for_in0..record_count{matchSelf::parse_data_field(remaining,%s){"
                 "Ok((new_remaining,data_field))=>{remaining=new_remaining;fields.push(data_field);}Err(_)=>break}}Ok((remaining,fields))")
    # (1) the code as it is now: the cached template is BORROWED (`Option<&Template>`), no template / size 0 is a parse error, the loop stops
    ms = list(re.finditer(r"fn\s+parse\s*<'a>\s*\(\s*input\s*:\s*&'a\s*\[u8\]\s*,\s*template\s*:\s*Option<&Template>\s*,?\s*\)[^{]*\{", v9))
    if len(ms) == 1:
        b = fn_body(v9, r"fn\s+parse\s*<'a>\s*\(\s*input\s*:\s*&'a\s*\[u8\]\s*,\s*template\s*:\s*Option<&Template>\s*,?\s*\)[^{]*\{", "v9 FieldParser::parse")
        head = ("lettotal_size=template.map_or(0,|t|usize::from(t.get_total_size()));lettemplate=matchtemplate{Some(template)iftotal_size>0=>template,"
                "_=>returnErr(NomErr::Error(NomError::new(input,ErrorKind::Verify)))};letrecord_count=input.len().saturating_div(total_size);")
        if b == head + stop_loop % "template":
            return True, True
        raise Unrecognised("v9 FieldParser::parse (borrowed template) not in the recognised form")
    # (2) earlier forms: the template passed by value
    b = fn_body(v9, r"fn\s+parse\s*\(\s*input\s*:\s*&\[u8\]\s*,\s*template\s*:\s*Template\s*,?\s*\)[^{]*\{", "v9 FieldParser::parse")
    head = "lettotal_size=usize::from(template.get_total_size());"
    guard = "iftotal_size==0{returnErr(NomErr::Error(NomError::new(input,ErrorKind::Verify)));}"
    cnt = "letrecord_count=input.len().saturating_div(total_size);"
    retry = ("let(remaining,fields)=(0..record_count).fold((input,Vec::new()),|(remaining,mutfields),_|{"
             "let(new_remaining,data_field)=matchSelf::parse_data_field(remaining,template.clone()){Ok((remaining,data_field))=>(remaining,data_field),Err(_)=>return(remaining,fields)};"
             "fields.push(data_field);(new_remaining,fields)});Ok((remaining,fields))")
    for g, zero in ((guard, True), ("", False)):
        if b == head + g + cnt + retry:
            return zero, False
        if b == head + g + cnt + stop_loop % "template.clone()":
            return zero, True
    raise Unrecognised("v9 FieldParser::parse not in the recognised form")


def v9_size(v9):
    b = fn_body(v9, r"fn\s+get_total_size\s*\(\s*&self\s*\)\s*->\s*u16\s*\{", "get_total_size")
    if b != "self.fields.iter().fold(0,|acc,i|acc.saturating_add(i.field_length))":
        raise Unrecognised("get_total_size not in the recognised form")
    return 65535


# ------------------------------------------------------------------------------------------------ ipfix.rs

def ip_msg_sub(ipf):
    s = squash(ipf)
    m = need(re.search(r'#\[nom\(PreExec="letlength=header\.length\.saturating_sub\((\d+)\);",Parse="map_res\(take\(length\),\|i\|\{many0\(complete\(\|i\|FlowSet::parse\(i,parser\)\.map\(\|\(i,flow_set\)\|\(i,flow_set\)\)\)\)\(i\)\.map\(\|\(_,flow_sets\)\|flow_sets\)\}\)"\)\]pubflowsets:Vec<FlowSet>', s), "IPFix attribute")
    return int(m.group(1))


def ip_set_sub(ipf):
    s = squash(ipf)
    m = need(re.search(r'pubstructFlowSet\{pubheader:FlowSetHeader,#\[nom\(PreExec="letlength=header\.length\.saturating_sub\((\d+)\);",Parse="map_res\(take\(length\),\|i\|FlowSetBody::parse\(i,parser,header\.header_id\)\.map\(\|\(_,flow_set\)\|flow_set\)\)"\)\]pubbody:FlowSetBody\}', s), "ipfix FlowSet attribute")
    return int(m.group(1))


IP_INVALID = "if!%s.is_valid(){returnErr(nom::Err::Error(nom::error::Error::new(i,nom::error::ErrorKind::Verify)));}"
IP_TMPL_RHS = ("{let(i,template)=Template::parse(i)?;" + IP_INVALID % "template" +
               "parser.options_templates.remove(&template.template_id);parser.templates.insert(template.template_id,template.clone());Ok((i,FlowSetBody::Template(template)))}")
IP_OPT_RHS = ("{let(i,options_template)=OptionsTemplate::parse(i)?;" + IP_INVALID % "options_template" +
              "parser.templates.remove(&options_template.template_id);parser.options_templates.insert(options_template.template_id,options_template.clone());Ok((i,FlowSetBody::OptionsTemplate(options_template)))}")


def ip_arms(ipf):
    b = fn_body(ipf, r"impl\s+FlowSetBody\s*\{", "ipfix FlowSetBody::parse")
    arms = split_arms(_framed(b, IP_BODY_SIG, "ipfix FlowSetBody::parse"))
    out, cmps = [], None
    for pat, rhs in arms[:-1]:
        m = re.fullmatch(r"_ifid%sSET_MIN_RANGE&&id%sOPTIONS_TEMPLATE_ID" % (CMPRE, CMPRE), pat)
        if m:
            name, want, cmps = "tmpl", IP_TMPL_RHS, (CMP[m.group(1)], CMP[m.group(2)])
        elif pat in ("OPTIONS_TEMPLATE_ID", "_ifid==OPTIONS_TEMPLATE_ID"):
            name, want = "optTmpl", IP_OPT_RHS
        elif pat == "_ifparser.templates.contains_key(&id)":
            name, want = "data", V9_DATA_RHS
        elif pat == "_ifparser.options_templates.contains_key(&id)":
            name, want = "optData", V9_OPTDATA_RHS
        else:
            raise Unrecognised("ipfix FlowSetBody::parse: guard %r" % pat[:60])
        if rhs != want:
            raise Unrecognised("ipfix FlowSetBody::parse: body of arm %s" % name)
        out.append(name)
    if not arms or arms[-1] != ("_", ERR_RHS):
        raise Unrecognised("ipfix FlowSetBody::parse: default arm")
    if len(set(out)) != len(out) or cmps is None:
        raise Unrecognised("ipfix FlowSetBody::parse: arms")
    return out, cmps


def ip_ent(ipf):
    s = squash(ipf)
    m = need(re.search(r'#\[nom\(Cond="field_type_number%s(\d+)",PostExec="letfield_type_number=ifenterprise_number\.is_some\(\)\{field_type_number\.overflowing_sub\((\d+)\)\.0\}else\{field_type_number\};",'
                       r'PostExec="letfield_type=ifenterprise_number\.is_some\(\)\{IPFixField::Enterprise\}else\{field_type\};"\)\]' % CMPRE, s), "ipfix TemplateField enterprise attribute")
    return CMP[m.group(1)], int(m.group(2)), int(m.group(3))


def ip_valid(ipf):
    b = fn_body(ipf, r"fn\s+is_valid\s*\(\s*&self\s*\)\s*->\s*bool\s*\{", "is_valid")
    m = need(re.fullmatch(r"self\.get_field_count\(\)==self\.get_fields\(\)\.len\(\)&&self\.get_fields\(\)\.iter\(\)\.any\(\|f\|f\.field_length%s(\d+)\)" % CMPRE, b), "is_valid shape")
    cnt = fn_body(ipf, r"fn\s+get_field_count\s*\(\s*&self\s*\)\s*->\s*usize\s*\{", "get_field_count")
    if cnt != "self.get_fields().len()":
        raise Unrecognised("get_field_count")
    sq = squash(ipf)
    for ty in ("Template", "OptionsTemplate"):
        if sq.count("implCommonTemplatefor%s{fnget_fields(&self)->&Vec<TemplateField>{&self.fields}}" % ty) != 1:
            raise Unrecognised("impl CommonTemplate for %s is not exactly get_fields" % ty)
    if sq.count("implCommonTemplatefor") != 2 or sq.count("fnis_valid(") != 1 or sq.count("fnget_field_count(") != 1:
        raise Unrecognised("CommonTemplate: overriding or additional impls")
    return CMP[m.group(1)], int(m.group(2))


def ip_varlen(ipf):
    b = fn_body(ipf, r"fn\s+parse_field_length\b[^{]*\{", "parse_field_length")
    m = need(re.fullmatch(r"matchself\.field_length\{(\d+)=>\{let\(i,length\)=be_u8\(i\)\?;iflength%s(\d+)\{be_u16\(i\)\}else\{Ok\(\(i,u16::from\(length\)\)\)\}\}length=>Ok\(\(i,length\)\)\}" % CMPRE, b), "parse_field_length shape")
    return int(m.group(1)), CMP[m.group(2)], int(m.group(3))


def ip_value(ipf):
    b = fn_body(ipf, r"fn\s+parse_as_field_value\b[^{]*\{", "ipfix parse_as_field_value")
    if b != ("let(i,length)=self.parse_field_length(i)?;ifself.enterprise_number.is_some(){let(i,data)=take(length)(i)?;Ok((i,FieldValue::Vec(data.to_vec())))}"
             "else{FieldValue::from_field_type(i,self.field_type.into(),length)}"):
        raise Unrecognised("ipfix parse_as_field_value not in the recognised form")
    return True


def ip_loop(ipf):
    b = fn_body(ipf, r"fn\s+parse\s*<\s*T\s*:\s*CommonTemplate\s*>\s*\(", "ipfix FieldParser::parse")
    m = need(re.fullmatch(
        r"letmutfields=vec!\[\];letmutremaining=i;loop\{let\(rest,total_taken\)=template\.get_fields\(\)\.iter\(\)\.enumerate\(\)\.try_fold\(\(remaining,0usize\),\|\(remaining,total_taken\),\(c,field\)\|\{"
        r"letmutdata_field=BTreeMap::new\(\);let\(i,field_value\)=field\.parse_as_field_value\(remaining\)\?;lettaken=remaining\.len\(\)\.saturating_sub\(i\.len\(\)\);"
        r"data_field\.insert\(c,\(field\.field_type,field_value\)\);fields\.push\(data_field\);Ok::<_,nom::Err<nom::error::Error<&\[u8\]>>>\(\(i,total_taken\.saturating_add\(taken\)\)\)\}\)\?;"
        r"remaining=rest;iftotal_taken%s(\d+)\|\|remaining\.len\(\)%stotal_taken\{break;\}\}Ok\(\(remaining,fields\)\)" % (CMPRE, CMPRE), b), "ipfix FieldParser::parse shape")
    return CMP[m.group(1)], int(m.group(2)), CMP[m.group(3)]


def ip_empty_err(ipf):
    s = squash(ipf)
    pat = (r'#\[nom\(PreExec="lettemplate=parser\.%s\.get\(&set_id\)\.cloned\(\)\.unwrap_or_default\(\);",(ErrorIf="template\.get_fields\(\)\.is_empty\(\)",)?'
           r'Parse="\{\|i\|FieldParser::parse::<%s>\(i,template\)\}"\)\]pubfields:')
    a = need(re.search(pat % ("templates", "Template"), s), "ipfix Data attribute")
    b = need(re.search(pat % ("options_templates", "OptionsTemplate"), s), "ipfix OptionsData attribute")
    if bool(a.group(1)) != bool(b.group(1)):
        raise Unrecognised("ErrorIf on only one of Data / OptionsData")
    return bool(a.group(1))


def ip_opt_count(ipf):
    s = squash(ipf)
    need(re.search(r'PreExec="letcombined_count=usize::from\(scope_field_count\.saturating_add\(field_count\.checked_sub\(scope_field_count\)\.unwrap_or\(field_count\)\)\);",Parse="count\(TemplateField::parse,combined_count\)"', s), "ipfix OptionsTemplate count")
    return True



# ------------------------------------------------------------------------------------------------ shape-only items
# Regions the Lean model hard-codes and no other item reads.  They carry no parameter: a recognised shape contributes nothing to
# `Generated.ctl`, an unrecognised one is a FALLBACK (reported in the evidence, and check.py then widens its search), so that an edit
# there is at least never silent.

def _squashed_struct(src, name, what):
    ms = list(re.finditer(r"((?:#\[[^\]]*\]\s*)*)(?:pub\s+)?struct\s+%s\s*\{" % name, src))
    if len(ms) != 1:
        raise Unrecognised(what + ": struct found %d times" % len(ms))
    i = src.index("{", ms[0].end() - 1)
    depth = 0
    for j in range(i, len(src)):
        if src[j] == "{":
            depth += 1
        elif src[j] == "}":
            depth -= 1
            if depth == 0:
                return squash(ms[0].group(1)), squash(src[i + 1:j]).rstrip(",")
    raise Unrecognised(what + ": unbalanced")


def shape_entry(S):
    attrs, body = _squashed_struct(S["lib"], "GenericNetflowHeader", "GenericNetflowHeader")
    if body != "version:u16" or not re.fullmatch(r"#\[derive\([A-Za-z,]*\bNom\b[A-Za-z,]*\)\]", attrs):
        raise Unrecognised("GenericNetflowHeader is not `#[derive(Nom)] struct { version: u16 }`")
    new = fn_body(S["lib"], r"impl\s+ParsedNetflow\s*\{", "ParsedNetflow::new")
    if new != "fnnew(remaining:&[u8],result:NetflowPacket)->Self{Self{remaining:remaining.to_vec(),result}}":
        raise Unrecognised("ParsedNetflow::new")
    pm = list(re.finditer(r"((?:#\[[^\]]*\]\s*)+)pub\s+enum\s+ProtocolTypes\s*\{", S["proto"]))
    if len(pm) != 1:
        raise Unrecognised("ProtocolTypes enum")
    pa = squash(pm[0].group(1))
    if "#[repr(u8)]" not in pa or not re.search(r"#\[derive\([A-Za-z,]*\bNom\b[A-Za-z,]*\)\]", pa) or "#[nom" in pa:
        raise Unrecognised("ProtocolTypes is not `#[repr(u8)]` + derive(Nom) without further nom attributes")
    return {"entryShape": True}


def shape_counts(S):
    for src, what in ((S["v5"], "V5"), (S["v7"], "V7")):
        attrs, body = _squashed_struct(src, what, what)
        if body != 'pubheader:Header,#[nom(Count="header.count")]pubflowsets:Vec<FlowSet>' or "#[nom" in attrs:
            raise Unrecognised("%s struct: header + Count = header.count" % what)
    attrs, body = _squashed_struct(S["v9"], "V9", "V9")
    if body != 'pubheader:Header,#[nom(Parse="{|i|FlowSetParser::parse_flowsets(i,parser,header.count)}")]pubflowsets:Vec<FlowSet>' or \
            attrs.count("#[nom") != 1 or "#[nom(ExtraArgs(parser:&mutV9Parser))]" not in attrs:
        raise Unrecognised("V9 struct")
    return {"countShape": True}


def shape_v9_data(S):
    v9 = S["v9"]
    attrs, body = _squashed_struct(v9, "Data", "v9 Data")
    want = ('#[nom(Parse="{|i|FieldParser::parse(i,parser.templates.get(&flowset_id)%s)}")]'
            'pubfields:Vec<BTreeMap<usize,V9FieldPair>>,#[serde(skip_serializing)]pubpadding:Vec<u8>')
    if body not in (want % "", want % ".cloned().unwrap_or_default()"):
        raise Unrecognised("v9 Data struct attributes")
    attrs, body = _squashed_struct(v9, "OptionsData", "v9 OptionsData")
    loop = ('Parse="many0(complete({|i|%s::parse(i,field.next().ok_or(NomErr::Error(NomError::new(i,ErrorKind::Fail)))?)}))")]')
    borrowed = ('#[nom(PreExec="lettemplate=parser.options_templates.get(&flowset_id);",PreExec="letmutfield=template.map(|t|t.%s.as_slice()).unwrap_or_default().iter();",')
    cloned = ('#[nom(PreExec="lettemplate=parser.options_templates.get(&flowset_id).cloned().unwrap_or_default();",PreExec="letmutfield=template.%s.iter();",')
    ok = False
    for pre in (borrowed, cloned):
        w = (pre % "scope_fields" + loop % "ScopeDataField" + "pubscope_fields:Vec<ScopeDataField>," + pre % "option_fields" + loop % "OptionDataField" +
             "puboptions_fields:Vec<OptionDataField>,#[serde(skip_serializing)]pubpadding:Vec<u8>")
        ok = ok or body == w
    if not ok or attrs.count("#[nom") != 1 or "#[nom(ExtraArgs(parser:&mutV9Parser,flowset_id:u16))]" not in attrs:
        raise Unrecognised("v9 OptionsData struct attributes")
    attrs, body = _squashed_struct(v9, "OptionDataField", "OptionDataField")
    if body != '#[nom(Value(field.field_type))]pubfield_type:V9Field,#[nom(Map="|i:&[u8]|i.to_vec()",Take="field.field_length")]pubfield_value:Vec<u8>':
        raise Unrecognised("OptionDataField attributes")
    b = fn_body(v9, r"fn\s+parse_data_field\b[^{]*\{", "parse_data_field")
    if b != ("letmutdata_field=BTreeMap::new();for(field_index,template_field)intemplate.fields.iter().enumerate(){"
             "let(new_input,field_value)=template_field.parse_as_field_value(input)?;input=new_input;"
             "data_field.insert(field_index,(template_field.field_type,field_value));}Ok((input,data_field))"):
        raise Unrecognised("parse_data_field")
    b = fn_body(v9, r"pub\s+fn\s+parse_as_field_value\b[^{]*\{", "v9 parse_as_field_value")
    if b != "FieldValue::from_field_type(input,self.field_type.into(),self.field_length)":
        raise Unrecognised("v9 parse_as_field_value")
    return {"v9DataShape": True}


def shape_ip_data(S):
    ipf = S["ipf"]
    for name, cache, ty in (("Data", "templates", "Template"), ("OptionsData", "options_templates", "OptionsTemplate")):
        attrs, body = _squashed_struct(ipf, name, "ipfix " + name)
        want = ('#[nom(PreExec="lettemplate=parser.%s.get(&set_id).cloned().unwrap_or_default();",ErrorIf="template.get_fields().is_empty()",'
                'Parse="{|i|FieldParser::parse::<%s>(i,template)}")]pubfields:Vec<BTreeMap<usize,(IPFixField,FieldValue)>>,'
                '#[serde(skip_serializing)]pubpadding:Vec<u8>') % (cache, ty)
        if body != want or attrs.count("#[nom") != 1 or "#[nom(ExtraArgs(parser:&mutIPFixParser,set_id:u16))]" not in attrs:
            raise Unrecognised("ipfix %s struct" % name)
    return {"ipDataShape": True}


ITEMS = [
    # key, function(sources) -> dict of Ctl fields
    ("ctl_gate", lambda S: lib_gate(S["lib"])),
    ("ctl_loop", lambda S: lib_loop(S["lib"])),
    ("ctl_errVersions", lambda S: {"v5ErrVersion": wrapper_version(S["v5"], "V5Parser", "V5Parser::parse"), "v7ErrVersion": wrapper_version(S["v7"], "V7Parser", "V7Parser::parse"),
                                   "v9ErrVersion": wrapper_version(S["v9"], "V9Parser", "V9Parser::parse"), "ipErrVersion": wrapper_version(S["ipf"], "IPFixParser", "IPFixParser::parse")}),
    ("ctl_v9SetSub", lambda S: {"v9SetSub": v9_set_sub(S["v9"])}),
    ("ctl_v9Arms", lambda S: {"v9Arms": v9_arms(S["v9"])}),
    ("ctl_v9OptDiv", lambda S: dict(zip(("v9ScopeDiv", "v9OptDiv"), v9_opt_div(S["v9"])))),
    ("ctl_v9Fold", lambda S: {"v9SkipEmpty": v9_fold(S["v9"])}),
    ("ctl_v9Data", lambda S: dict(zip(("v9ZeroIsErr", "v9StopOnErr"), v9_data(S["v9"])))),
    ("ctl_v9Size", lambda S: {"v9SizeSat": v9_size(S["v9"])}),
    ("ctl_ipMsgSub", lambda S: {"ipMsgSub": ip_msg_sub(S["ipf"])}),
    ("ctl_ipSetSub", lambda S: {"ipSetSub": ip_set_sub(S["ipf"])}),
    ("ctl_ipArms", lambda S: (lambda r: {"ipArms": r[0], "ipTmplCmp": r[1][0], "ipTmplCmp2": r[1][1]})(ip_arms(S["ipf"]))),
    ("ctl_ipEnt", lambda S: dict(zip(("ipEntCmp", "ipEntThr", "ipEntSub"), ip_ent(S["ipf"])))),
    ("ctl_ipValid", lambda S: dict(zip(("ipValidCmp", "ipValidThr"), ip_valid(S["ipf"])))),
    ("ctl_ipVarLen", lambda S: dict(zip(("ipVarLen", "ipVarEscCmp", "ipVarEsc"), ip_varlen(S["ipf"])))),
    ("ctl_ipValue", lambda S: {"ipValueShape": ip_value(S["ipf"])}),
    ("ctl_ipLoop", lambda S: dict(zip(("ipBreakCmp1", "ipBreakVal", "ipBreakCmp2"), ip_loop(S["ipf"])))),
    ("ctl_ipEmptyErr", lambda S: {"ipEmptyErr": ip_empty_err(S["ipf"])}),
    ("ctl_ipOptCount", lambda S: {"ipOptCountShape": ip_opt_count(S["ipf"])}),
    ("shape_entry", shape_entry),
    ("shape_counts", shape_counts),
    ("shape_v9Data", shape_v9_data),
    ("shape_ipData", shape_ip_data),
]

CTL_FIELDS = ["gateFirst", "v5ErrVersion", "v7ErrVersion", "v9ErrVersion", "ipErrVersion", "v9SetSub", "v9Arms", "v9ScopeDiv", "v9OptDiv", "v9SkipEmpty",
              "v9ZeroIsErr", "v9StopOnErr", "v9SizeSat", "ipMsgSub", "ipSetSub", "ipArms", "ipTmplCmp", "ipTmplCmp2", "ipEntCmp", "ipEntThr", "ipEntSub", "ipValidCmp", "ipValidThr",
              "ipVarLen", "ipVarEscCmp", "ipVarEsc", "ipBreakCmp1", "ipBreakVal", "ipBreakCmp2", "ipEmptyErr"]
CMP_FIELDS = {"ipTmplCmp", "ipTmplCmp2", "ipEntCmp", "ipValidCmp", "ipVarEscCmp", "ipBreakCmp1", "ipBreakCmp2"}


def emit_lean(out):
    """out: the merged dict of all ctl_* items"""
    vals = {}
    for key, _ in ITEMS:
        vals.update(out[key])
    L = ["/- GENERATED by tools/translate.py (translate_ctl.py) from the Rust source of /repo — do not edit. -/",
         "import NetflowModel.Ctl", "namespace Netflow.Generated", "open Netflow", "",
         "/-- control skeleton of src/lib.rs, v9.rs, ipfix.rs, v5.rs, v7.rs as read from the source on this run -/",
         "def ctl : Ctl where"]
    for f in CTL_FIELDS:
        v = vals[f]
        if f in CMP_FIELDS:
            t = "." + v
        elif isinstance(v, bool):
            t = "true" if v else "false"
        elif isinstance(v, list):
            t = "[" + ", ".join("." + x for x in v) + "]"
        else:
            t = str(int(v))
        L.append("  %s := %s" % (f, t))
    L += ["", "end Netflow.Generated", ""]
    return "\n".join(L)
