#!/bin/bash
# seedtest.sh <seed-name> <worktree> [checks...] — confirm a seeded change (demo fails with it, passes without, suite green),
# store it under /verif/seeded/<name>/, run the given checks against a PATCHED PRIVATE COPY (tools/partest.sh; /repo is not touched).
set -u
name=$1; wt=$2; shift 2
checks="$@"
out=/verif/seeded/$name
mkdir -p $out
cp $wt/seed_out/patch.diff $wt/seed_out/demo.rs $out/ 2>/dev/null
cp $wt/seed_out/notes.md $out/notes.md 2>/dev/null
cd $wt && git checkout -q -- . && mkdir -p tests && cp seed_out/demo.rs tests/demo.rs
export CARGO_NET_OFFLINE=true
feat=""; case "$name" in C17*) feat="--no-default-features";; esac    # C17 is about the build WITHOUT the default feature: its demos run there
base_demo=$(cargo test --offline --test demo $feat 2>&1 | grep -E "^test result:" | head -1)
git apply seed_out/patch.diff
suite=$(cargo test --offline --lib 2>&1 | grep -E "^test result:" | head -1)
doc=$(cargo test --offline --doc 2>&1 | grep -E "^test result:" | head -1)
mut_demo=$(cargo test --offline --test demo $feat 2>&1 | grep -E "^test result:" | head -1)
git checkout -q -- src; rm -rf tests target
echo "demo on unchanged: $base_demo"; echo "suite with change: $suite / $doc"; echo "demo with change: $mut_demo"
res=$(bash /verif/tools/partest.sh seed_$name $out/patch.diff $checks 2>&1 | grep -E "^PARTEST|->" )
echo "$res"
r=$(echo "$res" | grep "^PARTEST" | sed -E 's/^PARTEST [^:]+://; s/ALARM/DETECTED/g')
echo "RESULT $name:$r"
python3 - "$name" "$base_demo" "$suite" "$doc" "$mut_demo" "$r" <<'PY'
import json,sys,os
name,base,suite,doc,mut,res=sys.argv[1:7]
p='/verif/seeded/%s/meta.json'%name
old=json.load(open(p)) if os.path.exists(p) else {}
old.update({"seed":name,"demo_on_unchanged":base,"unit_suite_with_change":suite,"doc_tests_with_change":doc,"demo_with_change":mut,
 "checks_run":res.split(),"ran":"tools/seedtest.sh (demo confirmed in the agent's worktree; tools/partest.sh: patch applied to a private worktree + private copy of /verif, python3 check.py <id> --tier quick)"})
json.dump(old, open(p,'w'), indent=1)
PY
