#!/bin/bash
# seedtest.sh <Cnn-of-seed> <worktree> [checks...] — confirm a seeded change (demo fails with it, passes without, suite green),
# store it under /verif/seeded/<name>/, run the given checks against /repo with the change applied, revert.
set -u
name=$1; wt=$2; shift 2
checks="$@"
out=/verif/seeded/$name
mkdir -p $out
cp $wt/seed_out/patch.diff $wt/seed_out/demo.rs $out/ 2>/dev/null
cp $wt/seed_out/notes.md $out/notes.md 2>/dev/null
cd $wt && git checkout -q -- . && mkdir -p tests && cp seed_out/demo.rs tests/demo.rs
export CARGO_NET_OFFLINE=true
base_demo=$(cargo test --offline --test demo 2>&1 | grep -E "^test result" | head -1)
git apply seed_out/patch.diff
suite=$(cargo test --offline --lib 2>&1 | grep -E "^test result" | head -1)
doc=$(cargo test --offline --doc 2>&1 | grep -E "^test result" | head -1)
mut_demo=$(cargo test --offline --test demo 2>&1 | grep -E "^test result" | head -1)
git checkout -q -- src; rm -rf tests
echo "demo on unchanged: $base_demo"; echo "suite with change: $suite / $doc"; echo "demo with change: $mut_demo"
# evidence files are rewritten by every check run: keep the ones of the unchanged tree
exec 9>/tmp/repo.lock; flock 9
rm -rf /tmp/evidence_keep && cp -r /verif/evidence /tmp/evidence_keep
cd /repo && git apply $out/patch.diff || { echo "patch does not apply to /repo"; exit 2; }
res=""
for c in $checks; do
  o=$(cd /verif && python3 check.py $c --tier quick 2>&1 | grep -E "^VIOLATION" | head -1)
  if [ -n "$o" ]; then res="$res $c:DETECTED"; echo "  $c -> $o"; else res="$res $c:quiet"; fi
done
cd /repo && git checkout -- . 
python3 /verif/tools/translate.py > /dev/null
rm -rf /verif/evidence && cp -r /tmp/evidence_keep /verif/evidence
echo "RESULT $name:$res"
python3 - "$name" "$base_demo" "$suite" "$doc" "$mut_demo" "$res" <<'PY'
import json,sys
name,base,suite,doc,mut,res=sys.argv[1:7]
json.dump({"seed":name,"demo_on_unchanged":base,"unit_suite_with_change":suite,"doc_tests_with_change":doc,"demo_with_change":mut,
 "checks_run":res.split(),"ran":"tools/seedtest.sh (git apply to /repo, python3 check.py <id> --tier quick, git checkout -- .)"}, open('/verif/seeded/%s/meta.json'%name,'w'), indent=1)
PY
