"""props.py — per-property configuration of check.py: which scenario families are generated, which
part of the behaviour the correspondence compares (the property's VIEW, DESIGN §5), which oracle key
of the Lean driver decides the property, which known-finding classes belong to it.  No property is
stated here — the predicates live in lean/NetflowModel/Preds.lean."""
import json, os
import gen

VERIF = os.path.dirname(os.path.dirname(os.path.abspath(__file__)))


def corpus_scenarios(pid):
    """minimised past failures and finding witnesses run first (corpus/<pid>/*.json, corpus/all/*.json)"""
    out = []
    for d in ("all", pid):
        p = os.path.join(VERIF, "corpus", d)
        if not os.path.isdir(p):
            continue
        for fn in sorted(os.listdir(p)):
            if fn.endswith(".json"):
                j = json.load(open(os.path.join(p, fn)))
                out.append(("corpus:" + fn, [o for o in j["ops"] if o.get("op") != "scenario"]))
    vec = json.load(open(os.path.join(VERIF, "corpus", "repo_test_vectors.json")))
    for v in vec:
        out.append(("corpus:repo-test-vector", [gen.op_new(0), gen.op_parse(0, hexs=v)]))
    return out


def n(tier, q, t):
    return q if tier == "quick" else t


def fam_general(rng, tier):
    return (gen.fam_fixed(rng, n(tier, 60, 400)) + gen.fam_stream(rng, n(tier, 150, 1500)) + gen.fam_garbage(rng, n(tier, 80, 600)))


PROPS = {
    "C02": {
        "oracle": "C02", "view": ["outcome", "pkts"], "classes": [],
        "families": fam_general, "mutate_per": {"quick": 2, "thorough": 4},
        "rule": "conformant V5/V7/V9/IPFIX multi-call histories from the RFC-level generator, random garbage with plausible version words, and byte mutations (truncation, length-word edits, bit flips, splices) of the encoded histories",
    },
}
