"""props.py — per-property configuration of check.py: which scenario families are generated, which
part of the behaviour the correspondence compares (the property's VIEW, DESIGN §5), which oracle key
of the Lean driver decides the property, which known-finding classes belong to it.  No property is
stated here — the predicates live in lean/NetflowModel/Preds.lean."""
import json, os
import gen

VERIF = os.path.dirname(os.path.dirname(os.path.abspath(__file__)))


def corpus_scenarios(pid):
    """minimised past failures and finding witnesses run first (corpus/<pid>/*.json, corpus/all/*.json)"""
    out = []
    for d in ("all", pid):
        p = os.path.join(VERIF, "corpus", d)
        if not os.path.isdir(p):
            continue
        for fn in sorted(os.listdir(p)):
            if fn.endswith(".json"):
                j = json.load(open(os.path.join(p, fn)))
                out.append(("corpus:" + fn, [o for o in j["ops"] if o.get("op") != "scenario"]))
    vec = json.load(open(os.path.join(VERIF, "corpus", "repo_test_vectors.json")))
    for v in vec:
        out.append(("corpus:repo-test-vector", [gen.op_new(0), gen.op_parse(0, hexs=v)]))
    return out


def n(tier, q, t):
    return q if tier == "quick" else t


def with_want(scens, want):
    for _, ops in scens:
        for o in ops:
            if o.get("op") == "parse":
                o["want"] = want
    return scens


def fam_general(rng, tier):
    return (fam_ss(rng, tier) + gen.fam_redefine_in_packet(rng, n(tier, 60, 500)) + gen.fam_sizes(rng, tier) + gen.fam_boundaries(rng) + gen.fam_fixed(rng, n(tier, 60, 400)) + gen.fam_fixed_counts(rng, tier) + gen.fam_stream(rng, n(tier, 150, 1500)) + gen.fam_garbage(rng, n(tier, 80, 600)) +
            gen.fam_orphan(rng, n(tier, 60, 500)) + gen.fam_allowed_mix(rng, n(tier, 80, 600)) + gen.fam_allowed_swap(rng, n(tier, 20, 200)))


def fam_fixed_all(rng, tier):
    return gen.fam_allowed_swap(rng, n(tier, 20, 200)) + gen.fam_fixed_alias_versions(rng, n(tier, 60, 400)) + gen.fam_fixed(rng, n(tier, 120, 1200), max_recs=n(tier, 40, 200)) + gen.fam_fixed_counts(rng, tier) + gen.fam_fixed_protocols(rng) + \
        gen.fam_stream(rng, n(tier, 40, 300), versions=(5, 7))


def fam_ss(rng, tier, protos=(9, 10), want=None):
    """bounded-exhaustive small histories (gen.fam_smallscope): a seeded sample in the quick tier, ALL sequences of length <= 3 in the thorough tier"""
    kw = {} if want is None else {"want": want}
    return gen.fam_smallscope(rng, n(tier, 350, 0), protos=protos, exhaustive=(tier == "thorough"), **kw) + \
        gen.fam_setorder(rng, n(tier, 250, 0), protos=protos, exhaustive=(tier == "thorough"), **kw)


def fam_v9(rng, tier):
    return [sc for sc in gen.fam_forget(rng, n(tier, 60, 400)) + gen.fam_adopt(rng, n(tier, 40, 300)) if sc[0].endswith("-9") or "-9-" in sc[0]] + fam_ss(rng, tier, (9,)) + [sc for sc in gen.fam_redefine_in_packet(rng, n(tier, 80, 600)) if '-9-' in sc[0]] + gen.fam_dup_in_set(rng, n(tier, 40, 300)) + gen.fam_sizes(rng, tier) + gen.fam_boundaries(rng) + gen.fam_stream(rng, n(tier, 200, 2000), versions=(9,), calls=(1, 5)) + gen.fam_redefine(rng, n(tier, 40, 300)) + \
        gen.fam_stream(rng, n(tier, 200, 2000), versions=(9,), calls=(1, 5), lossless=True) + \
        gen.fam_stream(rng, n(tier, 100, 800), versions=(9,), calls=(1, 4), lossless=True, wild=True) + \
        gen.fam_widths(rng, 9, sample=n(tier, 120, None)) + gen.fam_all_fields(rng, 9) + gen.fam_proto_values(rng, 9)


def fam_ipfix(rng, tier):
    return [sc for sc in gen.fam_forget(rng, n(tier, 60, 400)) + gen.fam_adopt(rng, n(tier, 40, 300)) if sc[0].endswith("-10") or "-10-" in sc[0]] + fam_ss(rng, tier, (10,)) + [sc for sc in gen.fam_redefine_in_packet(rng, n(tier, 80, 600)) if '-10-' in sc[0]] + gen.fam_dup_in_set(rng, n(tier, 40, 300)) + gen.fam_sizes(rng, tier) + gen.fam_boundaries(rng) + gen.fam_stream(rng, n(tier, 200, 2000), versions=(10,), calls=(1, 5)) + gen.fam_redefine(rng, n(tier, 40, 300)) + \
        gen.fam_stream(rng, n(tier, 300, 3000), versions=(10,), calls=(1, 5), lossless=True, simple_ipfix=True) + \
        gen.fam_stream(rng, n(tier, 100, 800), versions=(10,), calls=(1, 4), lossless=True, simple_ipfix=True, wild=True) + \
        gen.fam_widths(rng, 10, sample=n(tier, 150, None)) + gen.fam_all_fields(rng, 10) + gen.fam_proto_values(rng, 10) + gen.fam_rejected_template(rng, n(tier, 40, 300), want=["export"])


def fam_cache(rng, tier):
    return fam_ss(rng, tier) + gen.fam_redefine_in_packet(rng, n(tier, 60, 400), lossless=True) + gen.fam_dup_in_set(rng, n(tier, 80, 600)) + gen.fam_chain_many_templates(rng, n(tier, (1100,), (1025, 1100, 4100))) + gen.fam_boundaries(rng) + gen.fam_isolation(rng, n(tier, 60, 500)) + gen.fam_forget(rng, n(tier, 60, 400)) + gen.fam_adopt(rng, n(tier, 40, 300)) + gen.fam_rejected_template(rng, n(tier, 60, 400)) + gen.fam_template_noise(rng, n(tier, 60, 400)) + gen.fam_redefine(rng, n(tier, 80, 600), lossless=True) + \
        gen.fam_stream(rng, n(tier, 100, 800), simple_ipfix=True, lossless=True)


def fam_c07(rng, tier):
    return fam_ss(rng, tier) + gen.fam_boundaries(rng) + gen.fam_unknown_template(rng, n(tier, 150, 1500)) + gen.fam_forget(rng, n(tier, 80, 600))


def fam_c11(rng, tier):
    return gen.fam_chain_many_templates(rng, n(tier, (1100,), (1025, 1100, 4100))) + gen.fam_chain_big_tail(rng, n(tier, (300_000,), (70_000, 300_000, 1_100_000))) + gen.fam_chain(rng, n(tier, 150, 600)) + gen.fam_chain_minimal(rng, n(tier, 60, 400)) + (gen.fam_chain(rng, 60, max_pkts=7, all_partitions=True) if tier == "thorough" else [])


def fam_c12(rng, tier):
    return gen.fam_filter_sweep(rng) + gen.fam_allowed_swap(rng, n(tier, 40, 400)) + gen.fam_allowed_mix(rng, n(tier, 80, 600)) + gen.fam_filter(rng, n(tier, 250, 2500))


def fam_c14(rng, tier):
    if tier == "thorough":
        return gen.fam_trunc_wide(rng) + gen.fam_trunc_history(rng, 600) + gen.fam_trunc(rng, 150) + gen.fam_trunc(rng, 40, fracs=list(range(0, 1001, 25))) + gen.fam_forget(rng, 500)
    return gen.fam_trunc_wide(rng) + gen.fam_trunc_history(rng, 80) + gen.fam_trunc(rng, 300) + gen.fam_forget(rng, 80)


def fam_c13(rng, tier):
    return fam_ss(rng, tier) + gen.fam_redefine_in_packet(rng, n(tier, 80, 600), want=('common',)) + gen.fam_common(rng, n(tier, 150, 1500)) + gen.fam_redefine(rng, n(tier, 80, 500)) + gen.fam_fixed(rng, n(tier, 40, 300)) + gen.fam_fixed_protocols(rng)


STREAM_RULE = "conformant multi-call histories from the RFC-level generator (templates drawn from the library's type tables plus unknown types, supported widths, enterprise / variable-length / zero-length fields, 1-3 template records per set, options templates, paddings), encoded by the Lean specification writer Spec.enc"
MUT_RULE = ", plus byte mutations of the encoded histories (truncation, length-word edits, bit flips, splices, extensions)"
SS_RULE = "; bounded-exhaustive small histories (every sequence of <= 3 of 14-15 single-packet messages around template id 256 — two layouts of equal record size, an unknown-typed layout, an options template, rejected templates, data for each layout, a too-short body, a cut packet, a bystander id, a V5 packet — as separate calls or joined, then two probe data messages: a seeded sample in the quick tier, all 6540 in the thorough tier); size-threshold sweep (error remaining / variable-length values / padding at lengths around every power of two up to 2^16)"

PROPS = {
    "C01": {"dev_families": lambda rng, tier: [sc for sc in gen.fam_extremal(rng, tier) if sc[0].startswith("extremal-chain") or sc[0].startswith("extremal-ipfix-records-2000")],
            "oracle": "C01", "view": ["outcome"], "families": lambda rng, tier: gen.fam_extremal(rng, tier) + gen.fam_budget(rng, tier) + gen.fam_retry(rng, tier) + gen.fam_bigtemplate_small_sets(rng, tier) + fam_general(rng, tier) + gen.fam_redefine(rng, n(tier, 40, 300)) +
            gen.fam_widths(rng, 9, sample=n(tier, 150, None)) + gen.fam_widths(rng, 10, sample=n(tier, 150, None)),
            "mutate_per": {"quick": 1, "thorough": 3}, "rule": STREAM_RULE + MUT_RULE + "; extremal families: IPFIX data set packed with 1-byte records (quick: 2000 and 20000, thorough: up to 65000), 4095 chained 16-byte IPFIX messages, 2730 chained empty V5 packets, V9 zero-size templates, headers announcing 65535 records/fields, templates with up to 4000 zero-length fields — always after a history that cached the attacker-chosen template"},
    "C02": {"oracle": "C02", "view": ["outcome", "pkts"], "families": fam_general, "mutate_per": {"quick": 2, "thorough": 4},
            "rule": STREAM_RULE + ", random garbage with plausible version words" + MUT_RULE + SS_RULE},
    "C03": {"oracle": "C03", "view": ["outcome", "pkts"], "families": fam_fixed_all, "mutate_per": {"quick": 2, "thorough": 4},
            "also": ["C03spec"],
            "rule": "V5/V7 packets with all counts incl. 0, boundary field values, every protocol number 0..255, every truncation/mutation class; oracle = Cisco offsets + IANA names"},
    "C04": {"mutate_per": {"quick": 1, "thorough": 2}, "oracle": "C04", "view": ["outcome", "pkts", "state"], "families": fam_v9, "rule": STREAM_RULE + " (V9 only)" + SS_RULE},
    "C05": {"mutate_per": {"quick": 1, "thorough": 2}, "oracle": "C05", "view": ["outcome", "pkts", "state"], "families": fam_ipfix, "rule": STREAM_RULE + " (IPFIX only)" + SS_RULE},
    "C06": {"oracle": "C06", "view": ["outcome", "pkts", "state"], "families": fam_cache,
            "rule": "interleaved histories on several parser instances with colliding template ids, redefinitions, V5/V7 and disallowed-version frames, chained vs split delivery"},
    "C07": {"oracle": "C07", "view": ["outcome", "pkts", "state"], "families": fam_c07,
            "rule": "data sets for a template id unknown to this parser/protocol (defined for the other protocol on this parser and for the same protocol on another parser), alone or after other packets, then followed by the template and the same data"},
    "C08": {"oracle": "C08", "view": ["outcome", "pkts", "exports"],
            "families": lambda rng, tier: fam_fixed_all(rng, tier) + gen.fam_fixed_structs(rng, n(tier, 150, 1500)), "mutate_per": {"quick": 1, "thorough": 2},
            "rule": "V5/V7 packets, all counts, boundary values; re-export compared with the bytes each packet occupied"},
    "C09": {"mutate_per": {"quick": 1, "thorough": 2}, "oracle": "C09", "view": ["outcome", "pkts", "exports"], "families": fam_v9, "rule": STREAM_RULE + " (V9 only); re-export compared with the bytes each packet occupied"},
    "C10": {"mutate_per": {"quick": 1, "thorough": 2}, "oracle": "C10", "view": ["outcome", "pkts", "exports"], "families": fam_ipfix, "rule": STREAM_RULE + " (IPFIX only); re-export compared with the message bytes"},
    "C11": {"oracle": "C11", "view": ["outcome", "pkts", "state"], "families": fam_c11,
            "rule": "sequences of 2-6 self-delimiting packets of all four versions (early packets defining templates later ones need): joined, one per call, random partitions (thorough: all 2^(n-1) partitions for n<=7)"},
    "C12": {"oracle": "C12", "view": ["outcome", "pkts", "state"], "families": fam_c12,
            "rule": "random subsets S of {5,7,9,10} plus extra numbers against an every-version-allowed parser on the same buffer/history, and against an every-version-allowed parser fed the allowed prefix only"},
    "C13": {"oracle": "C13", "view": ["outcome", "pkts", "common"], "families": fam_c13,
            "rule": "V5/V7 packets and V9/IPFIX streams whose templates are built from the projected fields (any subset/order, IPv4/IPv6), several records and sets; flat helper on a twin parser"},
    "C15": {"oracle": "C15", "view": ["outcome", "pkts"], "want_override": ["alloc"],
            "families": lambda rng, tier: with_want(gen.fam_extremal(rng, tier) + gen.fam_budget(rng, tier) + gen.fam_retry(rng, tier) + gen.fam_bigtemplate_small_sets(rng, tier) + fam_general(rng, tier) + gen.fam_redefine(rng, n(tier, 40, 300)), ["alloc"]) + gen.fam_scaling(rng, tier),
            "mutate_per": {"quick": 1, "thorough": 3},
            "rule": "heap bytes requested from a counting global allocator during parse_bytes (measured in the harness) against A*|buf| + B*size(result) + C + 1024*W with A=192, B=16, C=128 KiB and W the modelled data-path work of the call (Cost.workOf, lean/NetflowModel/CostWork.lean: decode attempts of the record loops, IPFIX template-element copies — work a late failure discards is paid by no byte of the result; Props/C15c.lean bounds W), and size(result) against D*(|buf| + wire size of cached templates) + E with D=256, E=1 KiB (sizes defined in lean/NetflowModel/Cost.lean); growth oracle (assert_scale): the same input shape at size n and 4n on twin parsers, allocation and result size may grow at most 6x (+64 KiB) — templates per flowset, template sets, redefinitions, records, data sets, fields per template, V5/V7 records — and the same small message against caches of size n and 8n must cost the same; extremal families: headers announcing 65535 records/fields over short bodies, buffers packed with minimal packets, maximal record counts, templates with many (zero-length) fields"},
    "C16": {"oracle": "C16", "view": ["outcome", "pkts"],
            "families": lambda rng, tier: fam_ss(rng, tier) + gen.fam_sizes(rng, tier) + gen.fam_json(rng, n(tier, 200, 2000)) + gen.fam_garbage(rng, n(tier, 60, 400)) + gen.fam_fixed(rng, n(tier, 30, 200)),
            "mutate_per": {"quick": 1, "thorough": 2},
            "rule": "results of every kind (all four versions, templates, options, data with every value kind incl. 128-bit counters, NaN/infinite floats, non-UTF-8 strings, zero-length values, error elements with arbitrary remaining bytes); serde_json text produced twice by the harness and by a twin parser fed the same history, read back with Lean's JSON parser and compared with the model's serialisation tree toJ of the decoded value"},
    "C17": {"oracle": "C17", "view": ["outcome", "pkts", "state", "exports", "common"], "two_builds": True,
            "families": lambda rng, tier: fam_ss(rng, tier) + gen.fam_forget(rng, n(tier, 60, 400)) + gen.fam_adopt(rng, n(tier, 40, 300)) + gen.fam_stream(rng, n(tier, 250, 2500), versions=(9, 10), calls=(1, 4)) +
            gen.fam_stream(rng, n(tier, 150, 1500), versions=(9, 10), calls=(1, 4), lossless=True, simple_ipfix=True) + gen.fam_fixed(rng, n(tier, 20, 100)),
            "rule": "both feature configurations (two harness builds against the working tree) on conformant V9/IPFIX histories with known-only templates and with templates containing fields the library has no type for"},
    "C14": {"oracle": "C14", "view": ["outcome", "pkts", "state"], "families": fam_c14,
            "rule": "valid packets of every version cut strictly inside (V9: not on a flowset boundary), alone or after other packets, after a template-defining history; twin parser fed the preceding packets only"},
}
