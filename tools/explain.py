#!/usr/bin/env python3
"""explain.py <verdict-file> <oracle-key> [n] — show where expected and impl packets differ (triage aid)"""
import json, sys
def diff(a, b, path=""):
    if type(a) != type(b): return [(path, a, b)]
    if isinstance(a, dict):
        out=[]
        for k in set(a)|set(b):
            if a.get(k) != b.get(k): out += diff(a.get(k), b.get(k), path+"."+k)
        return out
    if isinstance(a, list):
        if len(a)!=len(b): return [(path+".len", len(a), len(b), json.dumps(a)[:300], json.dumps(b)[:300])]
        out=[]
        for i,(x,y) in enumerate(zip(a,b)):
            if x!=y: out += diff(x,y,path+"[%d]"%i)
        return out
    return [(path,a,b)] if a!=b else []
vf, key = sys.argv[1], sys.argv[2]
n = int(sys.argv[3]) if len(sys.argv)>3 else 5
cnt=0
for l in open(vf):
    j=json.loads(l)
    if j.get('kind')=='parse' and j.get('oracle',{}).get(key) is False:
        cnt+=1
        if cnt<=n:
            print("line", j['i'], j.get('tags'))
            if j.get('expected') is not None:
                for d in diff(j['expected'], j['impl_pkts'])[:4]: print("   ", str(d)[:600])
print("total failing", cnt)
